import DashLive.Model.PlayReady
/-
Model of the ClearKey licence handler `dashlive/server/requesthandler/clearkey.py`
(lines 33-75: `post`, `base64url_encode`, `base64url_decode`), of the key lookup
`models.Key.get_kids` (`dashlive/server/models/key.py`) and of
`dashlive/drm/clearkey.py` (`generate_pssh`, hooks of `generate_manifest_context`).

Import-free apart from `Model/PlayReady.lean` (pssh framing).

Text is modelled as a list of code points (`List Nat`) so that the arithmetic of
the alphabet is visible to `omega`.  The request ids are JSON values: a string or
something else (`JId.other`: number, null, list, object).

`base64.b64decode` is modelled on the inputs the handler can hand it when the id
consists of base64url alphabet characters only (`Dec.ok` / `Dec.error` =
`binascii.Error`, a `ValueError`); ids containing any other character (including
`=`) are `Dec.outside`: CPython's lenient discard-and-continue rules are not
modelled, those ids are exercised against the Layer-C oracle only.
-/
namespace DashLive.ClearKey

abbrev Bytes := List UInt8
abbrev Text := List Nat

/-! ### standard base64 alphabet -/

/-- `A–Z a–z 0–9 + /` as code points -/
def stdChar (n : Nat) : Nat :=
  if n < 26 then 65 + n else if n < 52 then 97 + (n - 26) else if n < 62 then 48 + (n - 52)
  else if n = 62 then 43 else 47

def stdVal (c : Nat) : Option Nat :=
  if 65 ≤ c ∧ c ≤ 90 then some (c - 65) else if 97 ≤ c ∧ c ≤ 122 then some (c - 97 + 26)
  else if 48 ≤ c ∧ c ≤ 57 then some (c - 48 + 52) else if c = 43 then some 62
  else if c = 47 then some 63 else none

/-- the characters of `base64.b64encode(b)` before the `=` padding -/
def encBody : Bytes → Text
  | a :: b :: c :: rest =>
    stdChar (a.toNat / 4) :: stdChar (a.toNat % 4 * 16 + b.toNat / 16)
      :: stdChar (b.toNat % 16 * 4 + c.toNat / 64) :: stdChar (c.toNat % 64) :: encBody rest
  | [a, b] => [stdChar (a.toNat / 4), stdChar (a.toNat % 4 * 16 + b.toNat / 16),
               stdChar (b.toNat % 16 * 4)]
  | [a] => [stdChar (a.toNat / 4), stdChar (a.toNat % 4 * 16)]
  | [] => []

/-- `=` padding of `b64encode` for an input of `n` bytes -/
def padOf (n : Nat) : Text := if n % 3 = 1 then [61, 61] else if n % 3 = 2 then [61] else []

/-- `base64.b64encode(b)` -/
def b64encode (b : Bytes) : Text := encBody b ++ padOf b.length

/-- `str.replace(old, new)` for single characters -/
def replaceChar (old new : Nat) (t : Text) : Text := t.map fun c => if c = old then new else c

/-- `ClearkeyHandler.base64url_encode` – clearkey.py:60-64:
`b64encode`, `+`→`-`, `/`→`_`, every `=` removed -/
def b64urlEncode (b : Bytes) : Text :=
  (replaceChar 47 95 (replaceChar 43 45 (b64encode b))).filter (· ≠ 61)

/-- result of a decode -/
inductive Dec
  | ok (b : Bytes)
  | error            -- `binascii.Error` (a `ValueError`): caught by the handler
  | outside          -- input outside the modelled domain (lenient-mode rules not modelled)
  deriving DecidableEq, Repr

/-- groups of four characters → three bytes; a final group of 3 (2) characters → 2 (1) bytes.
`none` for a character outside the alphabet or a dangling single character. -/
def decBody : Text → Option Bytes
  | a :: b :: c :: d :: rest =>
    match stdVal a, stdVal b, stdVal c, stdVal d, decBody rest with
    | some va, some vb, some vc, some vd, some r =>
      some (UInt8.ofNat (va * 4 + vb / 16) :: UInt8.ofNat (vb % 16 * 16 + vc / 4)
            :: UInt8.ofNat (vc % 4 * 64 + vd) :: r)
    | _, _, _, _, _ => none
  | [a, b, c] =>
    match stdVal a, stdVal b, stdVal c with
    | some va, some vb, some vc =>
      some [UInt8.ofNat (va * 4 + vb / 16), UInt8.ofNat (vb % 16 * 16 + vc / 4)]
    | _, _, _ => none
  | [a, b] =>
    match stdVal a, stdVal b with
    | some va, some vb => some [UInt8.ofNat (va * 4 + vb / 16)]
    | _, _ => none
  | [_] => none
  | [] => some []

/-- `base64.b64decode(t)` on the domain "alphabet characters followed by at most two `=`" -/
def b64decode (t : Text) : Dec :=
  let body := t.takeWhile (· ≠ 61)
  let tail := t.dropWhile (· ≠ 61)
  if tail.any (· ≠ 61) || body.any (fun c => (stdVal c).isNone) || tail.length > 2 then .outside
  else if t.length % 4 ≠ 0 then .error      -- "Incorrect padding" / "… 1 more than a multiple of 4"
  else match decBody body with
    | some b => .ok b
    | none => .outside

/-- `ClearkeyHandler.base64url_decode` – clearkey.py:66-75 -/
def b64urlDecode (txt : Text) : Dec :=
  if txt.any (· = 61) then .outside else
  let t := replaceChar 95 47 (replaceChar 45 43 txt)
  let t := if t.length % 4 = 2 then t ++ [61, 61] else if t.length % 4 = 3 then t ++ [61] else t
  b64decode t

/-! ### the licence handler – clearkey.py:33-58, key.py `get_kids` -/

/-- one element of the JSON array `kids` -/
inductive JId
  | str (s : Text)
  | other            -- a JSON value that is not a string
  deriving DecidableEq, Repr

/-- a row of the `key` table (`hkid` is unique, lower-case hex of 16 bytes) -/
structure Stored where
  kid : Bytes
  key : Bytes
  deriving DecidableEq, Repr

inductive Resp
  | missingKids                         -- HTTP 400 `kids property missing`
  | error                               -- HTTP 200 `{"error": "Error: …"}` (caught exception)
  | outside                             -- an id was outside the modelled decode domain
  | keys (items : List (Text × Text))   -- HTTP 200 `{"keys": [{kty: oct, kid, k}…], "type": …}`
  deriving DecidableEq, Repr

/-- `list(map(self.base64url_decode, kids))`: the first failing id decides the outcome.
A non-string id raises `AttributeError` inside the `try`, which the handler (after the
`fix:` commit for C11) catches like the other malformed-id errors. -/
def decodeAll : List JId → Except Resp (List Bytes)
  | [] => .ok []
  | .other :: _ => .error .error
  | .str s :: rest =>
    match b64urlDecode s with
    | .outside => .error .outside
    | .error => .error .error
    | .ok b =>
      match decodeAll rest with
      | .ok bs => .ok (b :: bs)
      | .error e => .error e

/-- `models.Key.get_kids(kids)`: `SELECT … WHERE hkid IN (kids)` (hex compare = byte
compare), result keyed by `hkid` – one entry per stored row whose kid was asked for,
however often it was asked for -/
def getKids (store : List Stored) (kids : List Bytes) : List Stored :=
  store.filter fun k => kids.contains k.kid

/-- `ClearkeyHandler.post` for a JSON object body: `kids` = the `kids` member if present,
`hasType` = the body has a `type` member -/
def licence (store : List Stored) (kids : Option (List JId)) (hasType : Bool) : Resp :=
  match kids with
  | none => .missingKids
  | some ids =>
    match decodeAll ids with
    | .error e => e
    | .ok raw =>
      let items := (getKids store raw).map fun k => (b64urlEncode k.kid, b64urlEncode k.key)
      if hasType then .keys items else .error     -- `req["type"]` → KeyError → caught

/-! ### ClearKey pssh and manifest-context hooks – dashlive/drm/clearkey.py -/

/-- `ClearKey.RAW_PSSH_SYSTEM_ID` = 1077efec-c0b2-4d02-ace3-3c1e52e2fb4b -/
def psshSystemId : Bytes :=
  [0x10, 0x77, 0xef, 0xec, 0xc0, 0xb2, 0x4d, 0x02, 0xac, 0xe3, 0x3c, 0x1e, 0x52, 0xe2, 0xfb, 0x4b]

/-- `ClearKey.generate_pssh(default_kid, keys).encode()`: version 1, every key id, no data -/
def clearkeyPssh (kids : List Bytes) : Bytes :=
  PlayReady.encodePssh 1 psshSystemId kids []

/-- hooks set by `ClearKey.generate_manifest_context` (never a `pro`) -/
def clearkeyHooks (locs : List PlayReady.Loc) : PlayReady.Hooks :=
  { cenc := locs.contains .cenc, moov := locs.contains .moov, pro := false, v10 := false }

/-- hooks set by `Marlin.generate_manifest_context`: none at all -/
def marlinHooks : PlayReady.Hooks := { cenc := false, moov := false, pro := false, v10 := false }

end DashLive.ClearKey
