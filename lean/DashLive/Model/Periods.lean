import DashLive.Model.Segments
/-!
Model of the multi-period code (C12, DESIGN.md §7 C12):

* `ManifestContext.create_all_vod_periods`  (manifest_context.py:186-200)
* `ManifestContext.create_all_live_periods` (manifest_context.py:202-243)
* `MultiPeriodStream.total_duration`        (models/multi_period_stream.py:45-49)
* `ServeMpsMedia.calculate_media_segment_index` (media_requests.py:554-612) and what
  `generate_media_segment` (media_requests.py:139-220) does with its result.

All times of the period builders are `datetime.timedelta`s: exact integers of
microseconds (`Nat` here; every value is non-negative: `elapsedTime > 0`,
`firstAvailableTime = elapsedTime − timeShiftBufferDepth ≥ 0` because the depth is
clamped to the elapsed time, timing.py:142-143).  A period definition is the DB row
`models.Period`: `pid` (text, as a `List Char`), `duration`; its `start` column is
the *source offset* and is only used by the media requests.

Float steps of the Python and how they are treated:
* `int(firstAvailableTime.total_seconds() // duration.total_seconds())`
  (manifest_context.py:212-213) – the loop count.  It is a *parameter* `nl` of
  `livePeriodsFrom`.  CPython's float `//` is the exact floor of the quotient of the two
  doubles `F/10⁶`, `D/10⁶`, which is `⌊F / D⌋` or – when `F` is at (or within float
  rounding of) a multiple of `D`, e.g. `0.3 // 0.1 = 2` – one less; the driver evaluates it
  exactly that way (`Driver/Periods.lean`, `floatLoopCount`).  `livePeriods` instantiates
  `nl` with the exact floor `F / D`.  Contiguity and id uniqueness hold for every `nl`, the
  cover theorem only needs `nl · D ≤ F` (a count that is one too small merely lists one
  more Period that ends at `F`).
* `int(floor(period.start.total_seconds() * timing_ref.timescale))`
  (media_requests.py:555-556) – the source offset in reference ticks.  It is the
  parameter `startRef` of `mpsStartTc` (the driver evaluates the float expression
  with IEEE doubles, see `Driver/Periods.lean`).
* `int(floor(start_time * ts / ref_ts))` (media_requests.py:558-559) – Python's
  correctly rounded `int / int`; equals the exact floor while
  `start_time · ts < 2⁵³` and is modelled exactly (`Nat` division).
Not modelled: `if options.segmentTimeline: self.periods[-1].duration = None`
(manifest_context.py:241-242; `timeline=1` is outside the proved region, see the
ledger), everything `create_period` puts *inside* a Period (adaptation sets, URLs).
-/
namespace DashLive.Periods
open DashLive.Segments

/-- a `models.Period` row as far as the period builders read it -/
structure PeriodDef where
  pid : List Char
  /-- `Period.duration` in µs -/
  dur : Nat
  deriving Repr, DecidableEq

/-- a `dash.Period` as far as the manifest prints it: `@id`, `@start`, `@duration` (µs) -/
structure OutPeriod where
  id : List Char
  start : Nat
  dur : Nat
  deriving Repr, DecidableEq

def durations (ps : List PeriodDef) : List Nat := ps.map (·.dur)

/-- `MultiPeriodStream.total_duration` -/
def totalDuration (ps : List PeriodDef) : Nat := (durations ps).sum

/-! ### `create_all_vod_periods` -/

/-- the `for prd in multi_period.periods` loop: returns the periods and the final value
of `start`, which (since `fix:` 65ece2e) becomes `mediaDuration`, i.e.
`MPD@mediaPresentationDuration` -/
def vodLoop : List PeriodDef → Nat → List OutPeriod × Nat
  | [], start => ([], start)
  | p :: ps, start =>
    let r := vodLoop ps (start + p.dur)
    ({ id := p.pid, start := start, dur := p.dur } :: r.1, r.2)

def vodPeriods (ps : List PeriodDef) : List OutPeriod := (vodLoop ps 0).1
def vodMediaDuration (ps : List PeriodDef) : Nat := (vodLoop ps 0).2

/-! ### `create_all_live_periods` -/

/-- `f"{period.id}_{num_loops}"` -/
def renderId (pid : List Char) (loop : Nat) : List Char := pid ++ '_' :: Nat.toDigits 10 loop

/-- the `while start <= timing.elapsedTime` loop; state `(start, index, num_loops)`.
`none` = fuel exhausted (the Python loop would still be running). -/
def liveLoop (ps : List PeriodDef) (E F : Nat) : Nat → Nat → Nat → Nat → Option (List OutPeriod)
  | 0, _, _, _ => none
  | fuel+1, start, idx, nl =>
    if start ≤ E then
      let p := ps.getD idx { pid := [], dur := 0 }
      let idx' := (idx + 1) % ps.length
      let nl' := if idx' = 0 then nl + 1 else nl
      match liveLoop ps E F fuel (start + p.dur) idx' nl' with
      | none => none
      | some rest =>
        -- `if period_end >= timing.firstAvailableTime: self.periods.append(period)`
        if start + p.dur ≥ F then some ({ id := renderId p.pid nl, start := start, dur := p.dur } :: rest)
        else some rest
    else some []

/-- iterations that are always enough when the total duration is positive: the loop
leaves at the latest at the first period of loop `E / D + 1` (lemma `liveLoop_terminates`) -/
def liveFuel (ps : List PeriodDef) (E : Nat) : Nat := (E / totalDuration ps + 1) * ps.length + 1

/-- the loop started the way the Python starts it, for a given loop count `nl` -/
def livePeriodsFrom (ps : List PeriodDef) (E F nl : Nat) : Option (List OutPeriod) :=
  liveLoop ps E F (liveFuel ps E) (totalDuration ps * nl) 0 nl

/-- outcome of building the period list of a live manifest -/
inductive Built
  | ok (periods : List OutPeriod)
  /-- `ZeroDivisionError` from `firstAvailableTime.total_seconds() // 0.0` escapes -/
  | zeroDivision
  /-- the loop does not terminate -/
  | diverges
  deriving Repr, DecidableEq

/-- `create_all_live_periods` with the exact loop count `⌊F / D⌋` -/
def livePeriods (ps : List PeriodDef) (E F : Nat) : Built :=
  if totalDuration ps = 0 then .zeroDivision
  else match livePeriodsFrom ps E F (F / totalDuration ps) with
    | some l => .ok l
    | none => .diverges

/-! ### `ServeMpsMedia.calculate_media_segment_index` -/

/-- the period's source offset in the track's timescale (media_requests.py:557-559);
`startRef` is the offset in ticks of the stream's timing reference -/
def mpsStartTc (startRef ts refTs : Nat) : Nat :=
  if ts ≠ refTs then startRef * ts / refTs else startRef

/-- result of the index calculation: `ok mod_segment origin_time seg_num` or `ValueError` (→ 404) -/
inductive MpsRes
  | ok (modSeg : Int) (origin : Int) (segNum : Int)
  | notFound
  deriving Repr, DecidableEq

/-- media_requests.py:554-612, including the `fix:` commits 9437abb (a search that wrapped
into the next loop of the media – `origin_time > 0` – is refused), 7f6dd57 (a number below
`start_number` is refused) and 3d7a0df (a `$Time$` request gets the number
`start_number + mod_seg − first_seg`, where `first_seg` is the segment the Period starts
with, and is refused when it lies before that segment).  `startTc` is the period's source
offset in the track's timescale, `R` the reference duration in that timescale. -/
def mpsIndex (durs : List Nat) (R sn startTc : Nat) (rq : Req) : MpsRes :=
  let tc := match rq with
    | .time t => startTc + t
    | .number _ => startTc
  let r := getSegmentIndex durs R tc
  if r.2.2 > 0 then .notFound
  else match rq with
    | .time t =>
      let first := (getSegmentIndex durs R startTc).1
      if r.1 < first then .notFound
      else .ok r.1 (-(r.2.1 : Int) + t) ((sn : Int) + r.1 - first)
    | .number num =>
      if num < sn then .notFound
      else
        let m : Int := (r.1 : Int) + (num - sn)
        if m > durs.length then .notFound else .ok m (-(r.2.1 : Int)) num

/-- what the client receives -/
inductive Served
  /-- 200: stored media segment `src` (0-based), its `baseMediaDecodeTime` and `mfhd.sequence_number` -/
  | segment (src : Nat) (tfdt : Int) (seq : Int)
  /-- 404 -/
  | notFound
  /-- an exception other than `ValueError`/`OverflowError` escapes: 500 -/
  | crash
  deriving Repr, DecidableEq

/-- `generate_media_segment` (media_requests.py:170-220) applied to the index result: a
`mod_segment` outside `1..n` is refused (3d7a0df); `stored k` is the
`baseMediaDecodeTime` of stored segment `k` when the file has `tfdt` boxes, otherwise the
handler synthesises `Σ durations before` (media_requests.py:203-208); a negative decode
time cannot be encoded. -/
def mpsServe (durs : List Nat) (stored : Option (Nat → Nat)) : MpsRes → Served
  | .notFound => .notFound
  | .ok m origin num =>
    if m < 1 ∨ m > durs.length then .notFound
    else
      let k := (m - 1).toNat
      let base : Nat := match stored with
        | some f => f k
        | none => prefixSum durs k
      let tfdt : Int := (base : Int) + origin
      if tfdt < 0 then .crash else .segment k tfdt num

/-- a complete `$Number$` / `$Time$` media request of a period -/
def mpsRequest (durs : List Nat) (stored : Option (Nat → Nat)) (R sn startTc : Nat) (rq : Req) : Served :=
  mpsServe durs stored (mpsIndex durs R sn startTc rq)

end DashLive.Periods
