import DashLive.Model.Segments
/-!
Model of the multi-period code (C12, DESIGN.md §7 C12):

* `ManifestContext.create_all_vod_periods`  (manifest_context.py:186-200)
* `ManifestContext.create_all_live_periods` (manifest_context.py:202-243)
* `MultiPeriodStream.total_duration`        (models/multi_period_stream.py:45-49)
* `ServeMpsMedia.calculate_media_segment_index` (media_requests.py:554-612) and what
  `generate_media_segment` (media_requests.py:139-220) does with its result.

All times of the period builders are `datetime.timedelta`s: exact integers of
microseconds (`Nat` here; every value is non-negative: `elapsedTime > 0`,
`firstAvailableTime = elapsedTime − timeShiftBufferDepth ≥ 0` because the depth is
clamped to the elapsed time, timing.py:142-143).  A period definition is the DB row
`models.Period`: `pid` (text, as a `List Char`), `duration`; its `start` column is
the *source offset* and is only used by the media requests.

Float steps of the Python and how they are treated:
* `int(firstAvailableTime.total_seconds() // duration.total_seconds())`
  (manifest_context.py:212-213) – the loop count.  It is a *parameter* `nl` of
  `livePeriodsFrom`.  CPython's float `//` is the exact floor of the quotient of the two
  doubles `F/10⁶`, `D/10⁶`, which is `⌊F / D⌋` or – when `F` is at (or within float
  rounding of) a multiple of `D`, e.g. `0.3 // 0.1 = 2` – one less; the driver evaluates it
  exactly that way (`Driver/Periods.lean`, `floatLoopCount`).  `livePeriods` instantiates
  `nl` with the exact floor `F / D`.  Contiguity and id uniqueness hold for every `nl`, the
  cover theorem only needs `nl · D ≤ F` (a count that is one too small merely lists one
  more Period that ends at `F`).
* `int(floor(period.start.total_seconds() * timing_ref.timescale))`
  (media_requests.py:555-556) – the source offset in reference ticks.  It is the
  parameter `startRef` of `mpsStartTc` (the driver evaluates the float expression
  with IEEE doubles, see `Driver/Periods.lean`).
* `int(floor(start_time * ts / ref_ts))` (media_requests.py:558-559) – Python's
  correctly rounded `int / int`; equals the exact floor while
  `start_time · ts < 2⁵³` and is modelled exactly (`Nat` division).
Not modelled: `if options.segmentTimeline: self.periods[-1].duration = None`
(the last live Period is written without `@duration`; its SegmentTimeline is built
from the duration before that), everything else `create_period` puts *inside* a Period
(adaptation sets, URLs).
-/
namespace DashLive.Periods
open DashLive.Segments

/-- a `models.Period` row as far as the period builders read it -/
structure PeriodDef where
  pid : List Char
  /-- `Period.duration` in µs -/
  dur : Nat
  deriving Repr, DecidableEq

/-- a `dash.Period` as far as the manifest prints it: `@id`, `@start`, `@duration` (µs) -/
structure OutPeriod where
  id : List Char
  start : Nat
  dur : Nat
  deriving Repr, DecidableEq

def durations (ps : List PeriodDef) : List Nat := ps.map (·.dur)

/-- `MultiPeriodStream.total_duration` -/
def totalDuration (ps : List PeriodDef) : Nat := (durations ps).sum

/-- `Period.presentation_duration` (models/period.py, fix 983f9d5): the stored duration
rounded (half up) to a whole number of milliseconds – the resolution of `xs:duration`
values in the manifest.  `create_period` and `total_duration` use this value. -/
def quantise (us : Nat) : Nat := (us + 500) / 1000 * 1000

/-- the definitions as the period builders see them -/
def presented (ps : List PeriodDef) : List PeriodDef :=
  ps.map fun p => { p with dur := quantise p.dur }

/-! ### `create_all_vod_periods` -/

/-- the `for prd in multi_period.periods` loop: returns the periods and the final value
of `start`, which (since `fix:` 65ece2e) becomes `mediaDuration`, i.e.
`MPD@mediaPresentationDuration` -/
def vodLoop : List PeriodDef → Nat → List OutPeriod × Nat
  | [], start => ([], start)
  | p :: ps, start =>
    let r := vodLoop ps (start + p.dur)
    ({ id := p.pid, start := start, dur := p.dur } :: r.1, r.2)

def vodPeriods (ps : List PeriodDef) : List OutPeriod := (vodLoop ps 0).1
def vodMediaDuration (ps : List PeriodDef) : Nat := (vodLoop ps 0).2

/-! ### `create_all_live_periods` -/

/-- `f"{period.id}_{num_loops}"` -/
def renderId (pid : List Char) (loop : Nat) : List Char := pid ++ '_' :: Nat.toDigits 10 loop

/-- the `while start <= timing.elapsedTime` loop; state `(start, index, num_loops)`.
`none` = fuel exhausted (the Python loop would still be running). -/
def liveLoop (ps : List PeriodDef) (E F : Nat) : Nat → Nat → Nat → Nat → Option (List OutPeriod)
  | 0, _, _, _ => none
  | fuel+1, start, idx, nl =>
    if start ≤ E then
      let p := ps.getD idx { pid := [], dur := 0 }
      let idx' := (idx + 1) % ps.length
      let nl' := if idx' = 0 then nl + 1 else nl
      match liveLoop ps E F fuel (start + p.dur) idx' nl' with
      | none => none
      | some rest =>
        -- `if period_end >= timing.firstAvailableTime: self.periods.append(period)`
        if start + p.dur ≥ F then some ({ id := renderId p.pid nl, start := start, dur := p.dur } :: rest)
        else some rest
    else some []

/-- iterations that are always enough when the total duration is positive: the loop
leaves at the latest at the first period of loop `E / D + 1` (lemma `liveLoop_terminates`) -/
def liveFuel (ps : List PeriodDef) (E : Nat) : Nat := (E / totalDuration ps + 1) * ps.length + 1

/-- the loop started the way the Python starts it, for a given loop count `nl` -/
def livePeriodsFrom (ps : List PeriodDef) (E F nl : Nat) : Option (List OutPeriod) :=
  liveLoop ps E F (liveFuel ps E) (totalDuration ps * nl) 0 nl

/-- outcome of building the period list of a live manifest -/
inductive Built
  | ok (periods : List OutPeriod)
  /-- `ZeroDivisionError` from `firstAvailableTime.total_seconds() // 0.0` escapes -/
  | zeroDivision
  /-- `ManifestNotAvailable` (→ 404): more than `MAX_LIVE_PERIODS` Period elements would be
  needed (fix e70c912) -/
  | tooMany
  /-- the loop does not terminate -/
  | diverges
  deriving Repr, DecidableEq

/-- `ManifestContext.MAX_LIVE_PERIODS` -/
def maxLivePeriods : Nat := 2000

/-- `create_all_live_periods` (manifest_context.py:207-262) for a given loop count `nl` and a
given value `cnt` of the second float floor-division
`int((elapsedTime − start).total_seconds() // duration.total_seconds())` (`start = D · nl`),
which bounds the number of Period elements before the loop is entered (fix e70c912) -/
def livePeriodsGuarded (ps : List PeriodDef) (E F nl cnt : Nat) : Built :=
  if totalDuration ps = 0 then .zeroDivision
  else if ps.length * (1 + cnt) > maxLivePeriods then .tooMany
  else match livePeriodsFrom ps E F nl with
    | some l => .ok l
    | none => .diverges

/-- `create_all_live_periods` with the exact floors `⌊F / D⌋` and `⌊(E − D·⌊F/D⌋) / D⌋` -/
def livePeriods (ps : List PeriodDef) (E F : Nat) : Built :=
  livePeriodsGuarded ps E F (F / totalDuration ps)
    ((E - totalDuration ps * (F / totalDuration ps)) / totalDuration ps)

/-! ### `ServeMpsMedia.calculate_media_segment_index` -/

/-- the period's source offset in the track's timescale (media_requests.py:557-559);
`startRef` is the offset in ticks of the stream's timing reference -/
def mpsStartTc (startRef ts refTs : Nat) : Nat :=
  if ts ≠ refTs then startRef * ts / refTs else startRef

/-- result of the index calculation: `ok mod_segment origin_time seg_num` or `ValueError` (→ 404) -/
inductive MpsRes
  | ok (modSeg : Int) (origin : Int) (segNum : Int)
  | notFound
  deriving Repr, DecidableEq

/-- media_requests.py:563-608, including the `fix:` commits 9437abb (a search that wrapped
into the next loop of the media – `origin_time > 0` – is refused), 7f6dd57 (a number below
`start_number` is refused), 3d7a0df and 488ab59 (`$Time$` counts from the start of the first
segment of the Period: the segment is looked up at `first_start + t`, its number is
`start_number + mod_seg − first_seg`, and decode times of `$Number$` and `$Time$` requests
both count from `first_start`).  `startTc` is the period's source offset in the track's
timescale (`Period.start_timecode`), `R` the reference duration in that timescale. -/
def mpsIndex (durs : List Nat) (R sn startTc : Nat) (rq : Req) : MpsRes :=
  let r0 := getSegmentIndex durs R startTc
  if r0.2.2 > 0 then .notFound
  else match rq with
    | .time t =>
      let r := getSegmentIndex durs R (r0.2.1 + t)
      if r.2.2 > 0 then .notFound
      else .ok r.1 (-(r0.2.1 : Int)) ((sn : Int) + r.1 - r0.1)
    | .number num =>
      if num < sn then .notFound
      else
        let m : Int := (r0.1 : Int) + (num - sn)
        if m > durs.length then .notFound else .ok m (-(r0.2.1 : Int)) num

/-- what the client receives -/
inductive Served
  /-- 200: stored media segment `src` (0-based), its `baseMediaDecodeTime` and `mfhd.sequence_number` -/
  | segment (src : Nat) (tfdt : Int) (seq : Int)
  /-- 404 -/
  | notFound
  /-- an exception other than `ValueError`/`OverflowError` escapes: 500 -/
  | crash
  deriving Repr, DecidableEq

/-- `generate_media_segment` (media_requests.py:170-220) applied to the index result: a
`mod_segment` outside `1..n` is refused (3d7a0df); `stored k` is the
`baseMediaDecodeTime` of stored segment `k` when the file has `tfdt` boxes, otherwise the
handler synthesises `Σ durations before` (media_requests.py:203-208); a negative decode
time cannot be encoded. -/
def mpsServe (durs : List Nat) (stored : Option (Nat → Nat)) : MpsRes → Served
  | .notFound => .notFound
  | .ok m origin num =>
    if m < 1 ∨ m > durs.length then .notFound
    else
      let k := (m - 1).toNat
      let base : Nat := match stored with
        | some f => f k
        | none => prefixSum durs k
      let tfdt : Int := (base : Int) + origin
      if tfdt < 0 then .crash else .segment k tfdt num

/-- a complete `$Number$` / `$Time$` media request of a period -/
def mpsRequest (durs : List Nat) (stored : Option (Nat → Nat)) (R sn startTc : Nat) (rq : Req) : Served :=
  mpsServe durs stored (mpsIndex durs R sn startTc rq)

/-! ### the SegmentTimeline of a Period: `Representation.generate_period_timeline` -/

/-- the `while` loop of `generate_period_timeline` (representation.py:448-483, fix 488ab59);
`m` = `mod_segment − 1`, `lim` = `usecs · timescale`, `cur` the node being filled -/
def ptLoop (durs : List Nat) (lim : Nat) : Nat → Nat → Nat → SNode → List SNode → List SNode
  | 0, _, _, cur, acc => outputNode acc cur
  | fuel+1, m, pos, cur, acc =>
    if m < durs.length ∧ pos * 1000000 < lim then
      let d : Int := (durAt durs m : Int)
      let (cur', acc') :=
        if cur.dur.isNone then ({ cur with start := some (pos : Int) }, acc)
        else if some d ≠ cur.dur then (SNode.fresh, outputNode acc cur)
        else (cur, acc)
      ptLoop durs lim fuel (m + 1) (pos + durAt durs m) { cur' with dur := some d, count := cur'.count + 1 } acc'
    else outputNode acc cur

/-- `generate_period_timeline(start_timecode, duration)`: the `<S>` list of a Period that
plays this track from source offset `startTc` for `durUs` µs (the Period's presentation
duration); empty when the offset is past the media -/
def periodTimeline (durs : List Nat) (R ts startTc durUs : Nat) : List SNode :=
  let r := getSegmentIndex durs R startTc
  if r.2.2 > 0 then []
  else ptLoop durs (durUs * ts) (durs.length + 1) (r.1 - 1) 0 SNode.fresh []

end DashLive.Periods
