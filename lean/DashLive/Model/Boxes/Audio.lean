import DashLive.Model.Boxes.Basic
/-!
`dec3` – `EAC3SpecificBox` + `EAC3SubStream` (mp4.py:1827-1897; ETSI TS 102 366
annex F.6).  Bit layout, most significant bit first:

    data_rate:13 num_ind_sub:3
    per independent substream (num_ind_sub + 1 of them):
      fscod:2 bsid:5 bsmod:5 acmod:3 lfeon:1 reserved:3 num_dep_sub:4
      (num_dep_sub > 0 ? chan_loc:9 : reserved:1)
    optional, recognised by "at least 16 bits left":
      reserved:7 flag_ec3_extension_type_a:1 complexity_index_type_a:8

(the code reads the standard's `reserved:1 asvc:1 bsmod:3` as one 5-bit `bsmod`).
A substream is 3 bytes, or 4 when it has dependent substreams.
-/
namespace DashLive.Boxes
open DashLive.Bytes

structure Ec3Sub where
  fscod : Nat          -- 2 bits
  bsid : Nat           -- 5
  bsmod : Nat          -- 5
  acmod : Nat          -- 3
  lfeon : Nat          -- 1
  num_dep_sub : Nat    -- 4
  chan_loc : Nat       -- 9, only when num_dep_sub > 0 (0 otherwise)
  deriving DecidableEq, Repr

def Ec3Sub.Wf (s : Ec3Sub) : Prop :=
  s.fscod < 4 ∧ s.bsid < 32 ∧ s.bsmod < 32 ∧ s.acmod < 8 ∧ s.lfeon < 2 ∧ s.num_dep_sub < 16 ∧
  s.chan_loc < 512 ∧ (s.num_dep_sub = 0 → s.chan_loc = 0)
instance instAudio1 (s : Ec3Sub) : Decidable s.Wf := by unfold Ec3Sub.Wf; infer_instance

/-- the first 24 bits of a substream -/
def ec3Word (s : Ec3Sub) : Nat :=
  s.fscod * 4194304 + s.bsid * 131072 + s.bsmod * 4096 + s.acmod * 512 + s.lfeon * 256 +
  s.num_dep_sub * 2 + s.chan_loc / 256

def encEc3Sub (s : Ec3Sub) : Bytes :=
  encU24 (ec3Word s) ++ (if s.num_dep_sub = 0 then [] else encU8 (s.chan_loc % 256))

def decEc3Sub (bs : Bytes) : Option (Ec3Sub × Bytes) :=
  andThen (decU24 bs) fun w bs =>
  if w / 2 % 16 = 0 then
    some ({ fscod := w / 4194304, bsid := w / 131072 % 32, bsmod := w / 4096 % 32,
            acmod := w / 512 % 8, lfeon := w / 256 % 2, num_dep_sub := 0, chan_loc := 0 }, bs)
  else
    andThen (decU8 bs) fun b bs =>
    some ({ fscod := w / 4194304, bsid := w / 131072 % 32, bsmod := w / 4096 % 32,
            acmod := w / 512 % 8, lfeon := w / 256 % 2, num_dep_sub := w / 2 % 16,
            chan_loc := w % 2 * 256 + b }, bs)

structure Dec3 where
  data_rate : Nat                       -- 13 bits
  substreams : List Ec3Sub              -- 1 … 8
  /-- `flag_ec3_extension_type_a`, `complexity_index_type_a` – present iff the box has the tail -/
  ext : Option (Nat × Nat)
  deriving DecidableEq, Repr

def Dec3.Wf (x : Dec3) : Prop :=
  x.data_rate < 8192 ∧ 0 < x.substreams.length ∧ x.substreams.length ≤ 8 ∧
  (∀ s ∈ x.substreams, s.Wf) ∧
  (match x.ext with
   | none => True
   | some (f, c) => f < 2 ∧ c < 256)
instance instAudio2 (x : Dec3) : Decidable x.Wf := by
  unfold Dec3.Wf
  cases x.ext with
  | none => infer_instance
  | some p => cases p; infer_instance

def encDec3Ext : Option (Nat × Nat) → Bytes
  | none => []
  | some (f, c) => encU16 (f * 256 + c)

/-- `if (r.bitpos() + 16) <= r.bitsize:` – the strict model accepts nothing or exactly the
16-bit block after the substreams (the code ignores further bytes and they are lost) -/
def decDec3Ext (bs : Bytes) : Option (Option (Nat × Nat)) :=
  if bs.isEmpty then some none else
    match decU16 bs with
    | some (v, []) => some (some (v / 256 % 2, v % 256))
    | _ => none

def encDec3 (x : Dec3) : Bytes :=
  encU16 (x.data_rate * 8 + (x.substreams.length - 1)) ++
    (encMany encEc3Sub x.substreams ++ encDec3Ext x.ext)

def decDec3 (bs : Bytes) : Option Dec3 :=
  andThen (decU16 bs) fun w bs =>
  andThen (decMany decEc3Sub (w % 8 + 1) bs) fun subs bs =>
  match decDec3Ext bs with
  | some ext => some { data_rate := w / 8, substreams := subs, ext := ext }
  | none => none

end DashLive.Boxes
