import DashLive.Model.Boxes.Basic
/-!
Movie-fragment box classes of `dashlive/mpeg/mp4.py`:
`tfhd` – :2058-2109, `trun` + `TrackSample` – :2660-2780, `saiz` – :2348-2376,
`saio` – :2575-2617.

Fields that a flag bit switches off are `0` in the record (what `parse` stores
for them, except `tfhd.base_data_offset`, which `parse` replaces by the
position of the enclosing `moof` – a value that is not part of the bytes and is
compared separately by the harness).
-/
namespace DashLive.Boxes
open DashLive.Bytes

/-! ### tfhd -/
structure Tfhd where
  version : Nat
  flags : Nat
  track_id : Nat
  base_data_offset : Nat            -- flags & 0x01
  sample_description_index : Nat    -- flags & 0x02
  default_sample_duration : Nat     -- flags & 0x08
  default_sample_size : Nat         -- flags & 0x10
  default_sample_flags : Nat        -- flags & 0x20
  deriving DecidableEq, Repr

def optBound (c : Bool) (bound v : Nat) : Prop := if c then v < bound else v = 0
instance instFrag1 (c : Bool) (b v : Nat) : Decidable (optBound c b v) := by unfold optBound; infer_instance

def Tfhd.Wf (x : Tfhd) : Prop :=
  x.version < 256 ∧ x.flags < 16777216 ∧ x.track_id < 4294967296 ∧
  optBound (hasBit x.flags 0) 18446744073709551616 x.base_data_offset ∧
  optBound (hasBit x.flags 1) 4294967296 x.sample_description_index ∧
  optBound (hasBit x.flags 3) 4294967296 x.default_sample_duration ∧
  optBound (hasBit x.flags 4) 4294967296 x.default_sample_size ∧
  optBound (hasBit x.flags 5) 4294967296 x.default_sample_flags
instance instFrag2 (x : Tfhd) : Decidable x.Wf := by unfold Tfhd.Wf; infer_instance

def encTfhd (x : Tfhd) : Bytes :=
  encU8 x.version ++ (encU24 x.flags ++ (encU32 x.track_id ++
    (encOpt (hasBit x.flags 0) encU64 x.base_data_offset ++
    (encOpt (hasBit x.flags 1) encU32 x.sample_description_index ++
    (encOpt (hasBit x.flags 3) encU32 x.default_sample_duration ++
    (encOpt (hasBit x.flags 4) encU32 x.default_sample_size ++
     encOpt (hasBit x.flags 5) encU32 x.default_sample_flags))))))

def decTfhd' (bs : Bytes) : Option (Tfhd × Bytes) :=
  andThen (decU8 bs) fun version bs =>
  andThen (decU24 bs) fun flags bs =>
  andThen (decU32 bs) fun tid bs =>
  andThen (decOpt (hasBit flags 0) decU64 bs) fun bdo bs =>
  andThen (decOpt (hasBit flags 1) decU32 bs) fun sdi bs =>
  andThen (decOpt (hasBit flags 3) decU32 bs) fun dsd bs =>
  andThen (decOpt (hasBit flags 4) decU32 bs) fun dss bs =>
  andThen (decOpt (hasBit flags 5) decU32 bs) fun dsf bs =>
  some ({ version := version, flags := flags, track_id := tid, base_data_offset := bdo,
          sample_description_index := sdi, default_sample_duration := dsd,
          default_sample_size := dss, default_sample_flags := dsf }, bs)

def decTfhd : Bytes → Option Tfhd := exact decTfhd'

/-! ### trun -/
structure TrunSample where
  duration : Nat                    -- trun flags & 0x100
  size : Nat                        -- & 0x200
  flags : Nat                       -- & 0x400
  composition_time_offset : Int     -- & 0x800; signed iff trun version ≠ 0
  deriving DecidableEq, Repr

/-- composition offset as the unsigned/signed 32-bit field the version selects -/
def encCto (signed : Bool) (v : Int) : Bytes := if signed then encI32 v else encU32 v.toNat
def decCto (signed : Bool) (bs : Bytes) : Option (Int × Bytes) :=
  if signed then decI32 bs else
    match decU32 bs with
    | some (u, rest) => some ((u : Int), rest)
    | none => none

def encOptI (c : Bool) (enc : Int → Bytes) (v : Int) : Bytes := if c then enc v else []
def decOptI (c : Bool) (dec : Bytes → Option (Int × Bytes)) (bs : Bytes) : Option (Int × Bytes) :=
  if c then dec bs else some (0, bs)

def ctoOk (present signed : Bool) (v : Int) : Prop :=
  if present then (if signed then -2147483648 ≤ v ∧ v < 2147483648 else 0 ≤ v ∧ v < 4294967296)
  else v = 0
instance instFrag3 (p s : Bool) (v : Int) : Decidable (ctoOk p s v) := by unfold ctoOk; infer_instance

def TrunSample.Wf (flags version : Nat) (s : TrunSample) : Prop :=
  optBound (hasBit flags 8) 4294967296 s.duration ∧
  optBound (hasBit flags 9) 4294967296 s.size ∧
  optBound (hasBit flags 10) 4294967296 s.flags ∧
  ctoOk (hasBit flags 11) (version != 0) s.composition_time_offset
instance instFrag4 (f v : Nat) (s : TrunSample) : Decidable (s.Wf f v) := by
  unfold TrunSample.Wf; infer_instance

/-- `TrackSample.encode` – mp4.py:2696-2709 -/
def encTrunSample (flags version : Nat) (s : TrunSample) : Bytes :=
  encOpt (hasBit flags 8) encU32 s.duration ++
  (encOpt (hasBit flags 9) encU32 s.size ++
  (encOpt (hasBit flags 10) encU32 s.flags ++
   encOptI (hasBit flags 11) (encCto (version != 0)) s.composition_time_offset))

/-- the stored part of `TrackSample.parse` – mp4.py:2667-2694 -/
def decTrunSample (flags version : Nat) (bs : Bytes) : Option (TrunSample × Bytes) :=
  andThen (decOpt (hasBit flags 8) decU32 bs) fun d bs =>
  andThen (decOpt (hasBit flags 9) decU32 bs) fun sz bs =>
  andThen (decOpt (hasBit flags 10) decU32 bs) fun fl bs =>
  andThen (decOptI (hasBit flags 11) (decCto (version != 0)) bs) fun cto bs =>
  some ({ duration := d, size := sz, flags := fl, composition_time_offset := cto }, bs)

structure Trun where
  version : Nat
  flags : Nat
  sample_count : Nat                -- written as stored (`w.write('I', 'sample_count')`)
  data_offset : Int                 -- flags & 0x01, signed
  first_sample_flags : Nat          -- flags & 0x04
  samples : List TrunSample
  deriving DecidableEq, Repr

def i32Ok (present : Bool) (v : Int) : Prop :=
  if present then -2147483648 ≤ v ∧ v < 2147483648 else v = 0
instance instFrag5 (p : Bool) (v : Int) : Decidable (i32Ok p v) := by unfold i32Ok; infer_instance

def Trun.Wf (x : Trun) : Prop :=
  x.version < 256 ∧ x.flags < 16777216 ∧ x.sample_count < 4294967296 ∧
  x.sample_count = x.samples.length ∧
  i32Ok (hasBit x.flags 0) x.data_offset ∧
  optBound (hasBit x.flags 2) 4294967296 x.first_sample_flags ∧
  ∀ s ∈ x.samples, s.Wf x.flags x.version
instance instFrag6 (x : Trun) : Decidable x.Wf := by unfold Trun.Wf; infer_instance

def encTrun (x : Trun) : Bytes :=
  encU8 x.version ++ (encU24 x.flags ++ (encU32 x.sample_count ++
    (encOptI (hasBit x.flags 0) encI32 x.data_offset ++
    (encOpt (hasBit x.flags 2) encU32 x.first_sample_flags ++
     encMany (encTrunSample x.flags x.version) x.samples))))

def decTrun' (bs : Bytes) : Option (Trun × Bytes) :=
  andThen (decU8 bs) fun version bs =>
  andThen (decU24 bs) fun flags bs =>
  andThen (decU32 bs) fun count bs =>
  andThen (decOptI (hasBit flags 0) decI32 bs) fun off bs =>
  andThen (decOpt (hasBit flags 2) decU32 bs) fun fsf bs =>
  andThen (decMany (decTrunSample flags version) count bs) fun samples bs =>
  some ({ version := version, flags := flags, sample_count := count, data_offset := off,
          first_sample_flags := fsf, samples := samples }, bs)

def decTrun : Bytes → Option Trun := exact decTrun'

/-! ### saiz -/
structure Saiz where
  version : Nat
  flags : Nat
  aux_info_type : Nat               -- flags & 1
  aux_info_type_parameter : Nat     -- flags & 1
  default_sample_info_size : Nat
  sample_count : Nat
  sample_info_sizes : List Nat      -- present iff default_sample_info_size == 0
  deriving DecidableEq, Repr

def Saiz.Wf (x : Saiz) : Prop :=
  x.version < 256 ∧ x.flags < 16777216 ∧
  optBound (hasBit x.flags 0) 4294967296 x.aux_info_type ∧
  optBound (hasBit x.flags 0) 4294967296 x.aux_info_type_parameter ∧
  x.default_sample_info_size < 256 ∧ x.sample_count < 4294967296 ∧
  (if x.default_sample_info_size = 0 then x.sample_count = x.sample_info_sizes.length
   else x.sample_info_sizes = []) ∧
  ∀ s ∈ x.sample_info_sizes, s < 256
instance instFrag7 (x : Saiz) : Decidable x.Wf := by unfold Saiz.Wf; infer_instance

/-- `sample_count` + the per-sample sizes.  `encode_box_fields`:
`if default == 0: self.sample_count = len(sizes)`; sizes only when `default == 0` -/
def encSaizTable (dflt count : Nat) (sizes : List Nat) : Bytes :=
  if dflt = 0 then encU32 sizes.length ++ encMany encU8 sizes else encU32 count

def decSaizTable (dflt : Nat) (bs : Bytes) : Option ((Nat × List Nat) × Bytes) :=
  match decU32 bs with
  | none => none
  | some (count, bs) =>
    if dflt = 0 then
      match decMany decU8 count bs with
      | none => none
      | some (sizes, bs) => some ((count, sizes), bs)
    else some ((count, []), bs)

def encSaiz (x : Saiz) : Bytes :=
  encU8 x.version ++ (encU24 x.flags ++
    (encOpt (hasBit x.flags 0) encU32 x.aux_info_type ++
    (encOpt (hasBit x.flags 0) encU32 x.aux_info_type_parameter ++
    (encU8 x.default_sample_info_size ++
     encSaizTable x.default_sample_info_size x.sample_count x.sample_info_sizes))))

def decSaiz' (bs : Bytes) : Option (Saiz × Bytes) :=
  andThen (decU8 bs) fun version bs =>
  andThen (decU24 bs) fun flags bs =>
  andThen (decOpt (hasBit flags 0) decU32 bs) fun ait bs =>
  andThen (decOpt (hasBit flags 0) decU32 bs) fun aitp bs =>
  andThen (decU8 bs) fun dflt bs =>
  andThen (decSaizTable dflt bs) fun tbl bs =>
  some ({ version := version, flags := flags, aux_info_type := ait,
          aux_info_type_parameter := aitp, default_sample_info_size := dflt,
          sample_count := tbl.1, sample_info_sizes := tbl.2 }, bs)

def decSaiz : Bytes → Option Saiz := exact decSaiz'

/-! ### saio -/
structure Saio where
  version : Nat
  flags : Nat
  aux_info_type : Nat
  aux_info_type_parameter : Nat
  offsets : List Nat                -- 32 bit iff version == 0
  deriving DecidableEq, Repr

def Saio.Wf (x : Saio) : Prop :=
  x.version < 256 ∧ x.flags < 16777216 ∧
  optBound (hasBit x.flags 0) 4294967296 x.aux_info_type ∧
  optBound (hasBit x.flags 0) 4294967296 x.aux_info_type_parameter ∧
  x.offsets.length < 4294967296 ∧
  ∀ o ∈ x.offsets, o < wBound (x.version != 0)
instance instFrag8 (x : Saio) : Decidable x.Wf := by unfold Saio.Wf; infer_instance

def encSaio (x : Saio) : Bytes :=
  encU8 x.version ++ (encU24 x.flags ++
    (encOpt (hasBit x.flags 0) encU32 x.aux_info_type ++
    (encOpt (hasBit x.flags 0) encU32 x.aux_info_type_parameter ++
    (encU32 x.offsets.length ++ encMany (encW (x.version != 0)) x.offsets))))

def decSaio' (bs : Bytes) : Option (Saio × Bytes) :=
  andThen (decU8 bs) fun version bs =>
  andThen (decU24 bs) fun flags bs =>
  andThen (decOpt (hasBit flags 0) decU32 bs) fun ait bs =>
  andThen (decOpt (hasBit flags 0) decU32 bs) fun aitp bs =>
  andThen (decU32 bs) fun count bs =>
  andThen (decMany (decW (version != 0)) count bs) fun offsets bs =>
  some ({ version := version, flags := flags, aux_info_type := ait,
          aux_info_type_parameter := aitp, offsets := offsets }, bs)

def decSaio : Bytes → Option Saio := exact decSaio'

end DashLive.Boxes
