import DashLive.Model.Boxes.Basic
/-!
Common-encryption box classes of `dashlive/mpeg/mp4.py`:
`senc` and the PIFF `uuid` variant (`CencSampleEncryptionBox`,
`CencSampleAuxiliaryData`, `CencSubSample` – :2386-2545) and `pssh` – :2842-2904.

`senc` cannot be parsed on its own: the parser takes the IV size from the
`tenc` box of the `moov` (or `Options.iv_size`) unless the box carries it
(`flags & 1`), and the size of every sample's auxiliary data from the sibling
`saiz` box (`REQUIRED_PEERS`).  Both are parameters (`SencCtx`) of the decoder.
-/
namespace DashLive.Boxes
open DashLive.Bytes

structure SubSample where
  clear : Nat        -- u16
  encrypted : Nat    -- u32
  deriving DecidableEq, Repr

def encSubSample (s : SubSample) : Bytes := encU16 s.clear ++ encU32 s.encrypted
def decSubSample (bs : Bytes) : Option (SubSample × Bytes) :=
  andThen (decU16 bs) fun c bs =>
  andThen (decU32 bs) fun e bs =>
  some ({ clear := c, encrypted := e }, bs)

def SubSample.Wf (s : SubSample) : Prop := s.clear < 65536 ∧ s.encrypted < 4294967296
instance instCenc1 (s : SubSample) : Decidable s.Wf := by unfold SubSample.Wf; infer_instance

structure SencSample where
  iv : Bytes
  subsamples : List SubSample
  deriving DecidableEq, Repr

/-- context of a `senc` box: IV size from `tenc`/options and the per-sample
auxiliary sizes of the sibling `saiz` (`sample_info_sizes` or, when that list is
empty, `default_sample_info_size` for every sample) -/
structure SencCtx where
  ivSize : Nat
  saizSizes : List Nat
  saizDefault : Nat
  deriving Repr

/-- `saiz.sample_info_sizes[i] if saiz.sample_info_sizes else saiz.default_sample_info_size`
(`none` = `IndexError`) -/
def SencCtx.sizeAt (c : SencCtx) (i : Nat) : Option Nat :=
  if c.saizSizes.isEmpty then some c.saizDefault else c.saizSizes[i]?

/-- the sub-sample table of one sample: written only when the box has
`flags & 2` and the sample has sub-samples – `CencSampleAuxiliaryData.encode`,
mp4.py:2440-2449 -/
def encSubs (withSubs : Bool) (subs : List SubSample) : Bytes :=
  if withSubs && !subs.isEmpty then encU16 subs.length ++ encMany encSubSample subs else []

/-- read when `flags & 2` and the `saiz` size leaves room for the count –
`CencSampleAuxiliaryData.parse`, mp4.py:2431-2437 -/
def decSubs (withSubs : Bool) (ivSize size : Nat) (bs : Bytes) : Option (List SubSample × Bytes) :=
  if withSubs && decide (ivSize + 2 ≤ size) then
    andThen (decU16 bs) fun count bs =>
    if size < count * 6 then none      -- `raise ValueError('Invalid subsample_count')`
    else decMany decSubSample count bs
  else some ([], bs)

def encSencSample (withSubs : Bool) (s : SencSample) : Bytes :=
  s.iv ++ encSubs withSubs s.subsamples

def decSencSample (withSubs : Bool) (ivSize size : Nat) (bs : Bytes) : Option (SencSample × Bytes) :=
  andThen (takeN ivSize bs) fun iv bs =>
  andThen (decSubs withSubs ivSize size bs) fun subs bs =>
  some ({ iv := iv, subsamples := subs }, bs)

/-- the sample loop of `CencSampleEncryptionBox.parse` – mp4.py:2487-2495: entry
`i` is parsed with size `sizeAt i`; an entry of size 0 is skipped -/
def decSencSamples (withSubs : Bool) (ivSize : Nat) (c : SencCtx) : Nat → Nat → Bytes →
    Option (List SencSample × Bytes)
  | 0, _, bs => some ([], bs)
  | n+1, i, bs =>
    match c.sizeAt i with
    | none => none
    | some size =>
      if size = 0 then decSencSamples withSubs ivSize c n (i+1) bs else
      andThen (decSencSample withSubs ivSize size bs) fun s bs =>
      andThen (decSencSamples withSubs ivSize c n (i+1) bs) fun ss bs =>
      some (s :: ss, bs)

structure Senc where
  version : Nat
  flags : Nat
  algorithm_id : Nat      -- flags & 1 (u24)
  iv_size : Nat           -- flags & 1 (u8); otherwise the context's IV size
  kid : Bytes             -- flags & 1 (16 bytes)
  samples : List SencSample
  deriving DecidableEq, Repr

/-- `encode_fields`: `if any(s.subsamples for s in samples): flags |= 0x02` (after
the `fix:` commit; before it: `if len(samples) > 0`) -/
def sencFlags (x : Senc) : Nat :=
  if x.samples.any (fun s => !s.subsamples.isEmpty) && !hasBit x.flags 1 then x.flags + 2
  else x.flags

/-- `algorithm_id`, `iv_size`, `kid` – only with `flags & 1` -/
def encSencOverride (present : Bool) (alg iv : Nat) (kid : Bytes) : Bytes :=
  if present then encU24 alg ++ (encU8 iv ++ kid) else []

/-- sample count and samples -/
def encSencTail (withSubs : Bool) (samples : List SencSample) : Bytes :=
  encU32 samples.length ++ encMany (encSencSample withSubs) samples

def decSencTail (withSubs : Bool) (iv : Nat) (c : SencCtx) (bs : Bytes) :
    Option (List SencSample × Bytes) :=
  andThen (decU32 bs) fun n bs =>
  if iv ≠ 8 ∧ iv ≠ 16 then none        -- `assert rv['iv_size'] in {8, 16}`
  else decSencSamples withSubs iv c n 0 bs

def encSencWith (flags : Nat) (x : Senc) : Bytes :=
  encU8 x.version ++ (encU24 flags ++
    (encSencOverride (hasBit flags 0) x.algorithm_id x.iv_size x.kid ++
     encSencTail (hasBit flags 1) x.samples))

def encSenc (x : Senc) : Bytes := encSencWith (sencFlags x) x

/-- the part of `parse` after version/flags -/
def decSencBody (version flags : Nat) (c : SencCtx) (bs : Bytes) : Option (Senc × Bytes) :=
  if hasBit flags 0 then
    andThen (decU24 bs) fun alg bs =>
    andThen (decU8 bs) fun iv0 bs =>
    andThen (takeN 16 bs) fun kid bs =>
    andThen (decSencTail (hasBit flags 1) (if iv0 = 0 then 8 else iv0) c bs) fun samples bs =>
    some ({ version := version, flags := flags, algorithm_id := alg,
            iv_size := (if iv0 = 0 then 8 else iv0), kid := kid, samples := samples }, bs)
  else
    andThen (decSencTail (hasBit flags 1) c.ivSize c bs) fun samples bs =>
    some ({ version := version, flags := flags, algorithm_id := 0, iv_size := c.ivSize, kid := [],
            samples := samples }, bs)

def decSenc' (c : SencCtx) (bs : Bytes) : Option (Senc × Bytes) :=
  andThen (decU8 bs) fun version bs =>
  andThen (decU24 bs) fun flags bs =>
  decSencBody version flags c bs

def decSenc (c : SencCtx) : Bytes → Option Senc := exact (decSenc' c)

/-- what sample `i` (counting from `i0`) needs from the context: the `saiz` size
selects exactly the layout the sample is written in -/
def sencSampleOk (withSubs : Bool) (ivSize : Nat) (size : Nat) (s : SencSample) : Prop :=
  s.iv.length = ivSize ∧ size ≠ 0 ∧ (∀ u ∈ s.subsamples, u.Wf) ∧
  (if withSubs then
     (if s.subsamples.isEmpty then size < ivSize + 2
      else ivSize + 2 ≤ size ∧ s.subsamples.length < 65536 ∧ s.subsamples.length * 6 ≤ size)
   else s.subsamples = [])
instance instCenc2 (f : Bool) (iv sz : Nat) (s : SencSample) : Decidable (sencSampleOk f iv sz s) := by
  unfold sencSampleOk; infer_instance

def sencSamplesOk (flags : Bool) (ivSize : Nat) (c : SencCtx) : Nat → List SencSample → Prop
  | _, [] => True
  | i, s :: ss =>
    (match c.sizeAt i with
     | some size => sencSampleOk flags ivSize size s
     | none => False) ∧ sencSamplesOk flags ivSize c (i+1) ss

instance sencSamplesOkDec (flags : Bool) (ivSize : Nat) (c : SencCtx) :
    ∀ (i : Nat) (l : List SencSample), Decidable (sencSamplesOk flags ivSize c i l)
  | _, [] => isTrue trivial
  | i, s :: ss =>
    have : Decidable (sencSamplesOk flags ivSize c (i+1) ss) := sencSamplesOkDec flags ivSize c (i+1) ss
    by
      unfold sencSamplesOk
      cases c.sizeAt i <;> infer_instance

def Senc.Wf (c : SencCtx) (x : Senc) : Prop :=
  x.version < 256 ∧ x.flags < 16777216 ∧ x.samples.length < 4294967296 ∧
  (if hasBit x.flags 0 then
     x.algorithm_id < 16777216 ∧ (x.iv_size = 8 ∨ x.iv_size = 16) ∧ x.kid.length = 16
   else x.algorithm_id = 0 ∧ x.iv_size = c.ivSize ∧ (c.ivSize = 8 ∨ c.ivSize = 16) ∧ x.kid = []) ∧
  sencSamplesOk (hasBit x.flags 1) x.iv_size c 0 x.samples
instance instCenc3 (c : SencCtx) (x : Senc) : Decidable (x.Wf c) := by unfold Senc.Wf; infer_instance

/-! ### pssh -/
structure Pssh where
  version : Nat
  flags : Nat
  system_id : Bytes
  key_ids : List Bytes       -- only when version > 0
  data : Bytes               -- `None` and `b''` are both the empty list
  deriving DecidableEq, Repr

def Pssh.Wf (x : Pssh) : Prop :=
  x.version < 256 ∧ x.flags < 16777216 ∧ x.system_id.length = 16 ∧
  (x.version = 0 → x.key_ids = []) ∧ x.key_ids.length < 4294967296 ∧
  (∀ k ∈ x.key_ids, k.length = 16) ∧ x.data.length < 4294967296
instance instCenc4 (x : Pssh) : Decidable x.Wf := by unfold Pssh.Wf; infer_instance

/-- `kid_count` + key ids – only when `version > 0` -/
def encPsshKids (present : Bool) (kids : List Bytes) : Bytes :=
  if present then encU32 kids.length ++ encMany id kids else []

def decPsshKids (present : Bool) (bs : Bytes) : Option (List Bytes × Bytes) :=
  if present then andThen (decU32 bs) fun n bs => decMany (takeN 16) n bs
  else some ([], bs)

def encPssh (x : Pssh) : Bytes :=
  encU8 x.version ++ (encU24 x.flags ++ (x.system_id ++
    (encPsshKids (decide (0 < x.version)) x.key_ids ++ (encU32 x.data.length ++ x.data))))

def decPssh' (bs : Bytes) : Option (Pssh × Bytes) :=
  andThen (decU8 bs) fun version bs =>
  andThen (decU24 bs) fun flags bs =>
  andThen (takeN 16 bs) fun sys bs =>
  andThen (decPsshKids (decide (0 < version)) bs) fun kids bs =>
  andThen (decU32 bs) fun dl bs =>
  andThen (takeN dl bs) fun data bs =>
  some ({ version := version, flags := flags, system_id := sys, key_ids := kids, data := data }, bs)

def decPssh : Bytes → Option Pssh := exact decPssh'

end DashLive.Boxes
