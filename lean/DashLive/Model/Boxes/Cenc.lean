import DashLive.Model.Boxes.Basic
/-!
Common-encryption box classes of `dashlive/mpeg/mp4.py`:
`senc` and the PIFF `uuid` variant (`CencSampleEncryptionBox`,
`CencSampleAuxiliaryData`, `CencSubSample` – :2386-2545) and `pssh` – :2842-2904.

`senc` cannot be parsed on its own: the parser takes the IV size from the
`tenc` box of the `moov` (or `Options.iv_size`) unless the box carries it
(`flags & 1`), and the size of every sample's auxiliary data from the sibling
`saiz` box (`REQUIRED_PEERS`).  Both are parameters (`SencCtx`) of the decoder.
-/
namespace DashLive.Boxes
open DashLive.Bytes

structure SubSample where
  clear : Nat        -- u16
  encrypted : Nat    -- u32
  deriving DecidableEq, Repr

def encSubSample (s : SubSample) : Bytes := encU16 s.clear ++ encU32 s.encrypted
def decSubSample (bs : Bytes) : Option (SubSample × Bytes) := do
  let (c, bs) ← decU16 bs
  let (e, bs) ← decU32 bs
  some ({ clear := c, encrypted := e }, bs)

def SubSample.Wf (s : SubSample) : Prop := s.clear < 65536 ∧ s.encrypted < 4294967296
instance (s : SubSample) : Decidable s.Wf := by unfold SubSample.Wf; infer_instance

structure SencSample where
  iv : Bytes
  subsamples : List SubSample
  deriving DecidableEq, Repr

/-- context of a `senc` box: IV size from `tenc`/options and the per-sample
auxiliary sizes of the sibling `saiz` (`sample_info_sizes` or, when that list is
empty, `default_sample_info_size` for every sample) -/
structure SencCtx where
  ivSize : Nat
  saizSizes : List Nat
  saizDefault : Nat
  deriving Repr

/-- `saiz.sample_info_sizes[i] if saiz.sample_info_sizes else saiz.default_sample_info_size`
(`none` = `IndexError`) -/
def SencCtx.sizeAt (c : SencCtx) (i : Nat) : Option Nat :=
  if c.saizSizes.isEmpty then some c.saizDefault else c.saizSizes[i]?

/-- `CencSampleAuxiliaryData.encode` – mp4.py:2440-2449 -/
def encSencSample (flags : Nat) (s : SencSample) : Bytes :=
  s.iv ++ (if hasBit flags 1 && !s.subsamples.isEmpty then
    encU16 s.subsamples.length ++ encMany encSubSample s.subsamples else [])

/-- `CencSampleAuxiliaryData.parse(src, size, iv_size, flags, …)` – mp4.py:2415-2438 -/
def decSencSample (flags ivSize size : Nat) (bs : Bytes) : Option (SencSample × Bytes) := do
  let (iv, bs) ← takeN ivSize bs
  if hasBit flags 1 && decide (ivSize + 2 ≤ size) then
    let (count, bs) ← decU16 bs
    if size < count * 6 then none else      -- `raise ValueError('Invalid subsample_count')`
    let (subs, bs) ← decMany decSubSample count bs
    some ({ iv := iv, subsamples := subs }, bs)
  else some ({ iv := iv, subsamples := [] }, bs)

/-- the sample loop of `CencSampleEncryptionBox.parse` – mp4.py:2487-2495: entry
`i` is parsed with size `sizeAt i`; an entry of size 0 is skipped -/
def decSencSamples (flags ivSize : Nat) (c : SencCtx) : Nat → Nat → Bytes →
    Option (List SencSample × Bytes)
  | 0, _, bs => some ([], bs)
  | n+1, i, bs => do
    let size ← c.sizeAt i
    if size = 0 then decSencSamples flags ivSize c n (i+1) bs else
    let (s, bs) ← decSencSample flags ivSize size bs
    let (ss, bs) ← decSencSamples flags ivSize c n (i+1) bs
    some (s :: ss, bs)

structure Senc where
  version : Nat
  flags : Nat
  algorithm_id : Nat      -- flags & 1 (u24)
  iv_size : Nat           -- flags & 1 (u8); otherwise the context's IV size
  kid : Bytes             -- flags & 1 (16 bytes)
  samples : List SencSample
  deriving DecidableEq, Repr

/-- `encode_fields`: `if any(s.subsamples for s in samples): flags |= 0x02` (after
the `fix:` commit; before it: `if len(samples) > 0`) -/
def sencFlags (x : Senc) : Nat :=
  if x.samples.any (fun s => !s.subsamples.isEmpty) && !hasBit x.flags 1 then x.flags + 2
  else x.flags

def encSenc (x : Senc) : Bytes :=
  let flags := sencFlags x
  encU8 x.version ++ (encU24 flags ++
    ((if hasBit flags 0 then encU24 x.algorithm_id ++ (encU8 x.iv_size ++ x.kid) else []) ++
    (encU32 x.samples.length ++ encMany (encSencSample flags) x.samples)))

def decSenc' (c : SencCtx) (bs : Bytes) : Option (Senc × Bytes) := do
  let (version, bs) ← decU8 bs
  let (flags, bs) ← decU24 bs
  if hasBit flags 0 then
    let (alg, bs) ← decU24 bs
    let (iv0, bs) ← decU8 bs
    let iv := if iv0 = 0 then 8 else iv0
    let (kid, bs) ← takeN 16 bs
    let (n, bs) ← decU32 bs
    if iv ≠ 8 ∧ iv ≠ 16 then none else     -- `assert rv['iv_size'] in {8, 16}`
    let (samples, bs) ← decSencSamples flags iv c n 0 bs
    some ({ version := version, flags := flags, algorithm_id := alg, iv_size := iv, kid := kid,
            samples := samples }, bs)
  else
    let (n, bs) ← decU32 bs
    if c.ivSize ≠ 8 ∧ c.ivSize ≠ 16 then none else
    let (samples, bs) ← decSencSamples flags c.ivSize c n 0 bs
    some ({ version := version, flags := flags, algorithm_id := 0, iv_size := c.ivSize, kid := [],
            samples := samples }, bs)

def decSenc (c : SencCtx) : Bytes → Option Senc := exact (decSenc' c)

/-- what sample `i` (counting from `i0`) needs from the context: the `saiz` size
selects exactly the layout the sample is written in -/
def sencSampleOk (flags ivSize : Nat) (size : Nat) (s : SencSample) : Prop :=
  s.iv.length = ivSize ∧ size ≠ 0 ∧ (∀ u ∈ s.subsamples, u.Wf) ∧
  (if hasBit flags 1 then
     (if s.subsamples.isEmpty then size < ivSize + 2
      else ivSize + 2 ≤ size ∧ s.subsamples.length < 65536 ∧ s.subsamples.length * 6 ≤ size)
   else s.subsamples = [])
instance (f iv sz : Nat) (s : SencSample) : Decidable (sencSampleOk f iv sz s) := by
  unfold sencSampleOk; infer_instance

def sencSamplesOk (flags ivSize : Nat) (c : SencCtx) : Nat → List SencSample → Prop
  | _, [] => True
  | i, s :: ss =>
    (match c.sizeAt i with
     | some size => sencSampleOk flags ivSize size s
     | none => False) ∧ sencSamplesOk flags ivSize c (i+1) ss

instance sencSamplesOkDec (flags ivSize : Nat) (c : SencCtx) :
    ∀ (i : Nat) (l : List SencSample), Decidable (sencSamplesOk flags ivSize c i l)
  | _, [] => isTrue trivial
  | i, s :: ss =>
    have : Decidable (sencSamplesOk flags ivSize c (i+1) ss) := sencSamplesOkDec flags ivSize c (i+1) ss
    by
      unfold sencSamplesOk
      cases c.sizeAt i <;> infer_instance

def Senc.Wf (c : SencCtx) (x : Senc) : Prop :=
  x.version < 256 ∧ x.flags < 16777216 ∧ x.samples.length < 4294967296 ∧
  (if hasBit x.flags 0 then
     x.algorithm_id < 16777216 ∧ (x.iv_size = 8 ∨ x.iv_size = 16) ∧ x.kid.length = 16
   else x.algorithm_id = 0 ∧ x.iv_size = c.ivSize ∧ (c.ivSize = 8 ∨ c.ivSize = 16) ∧ x.kid = []) ∧
  sencSamplesOk x.flags x.iv_size c 0 x.samples
instance (c : SencCtx) (x : Senc) : Decidable (x.Wf c) := by unfold Senc.Wf; infer_instance

/-! ### pssh -/
structure Pssh where
  version : Nat
  flags : Nat
  system_id : Bytes
  key_ids : List Bytes       -- only when version > 0
  data : Bytes               -- `None` and `b''` are both the empty list
  deriving DecidableEq, Repr

def Pssh.Wf (x : Pssh) : Prop :=
  x.version < 256 ∧ x.flags < 16777216 ∧ x.system_id.length = 16 ∧
  (x.version = 0 → x.key_ids = []) ∧ x.key_ids.length < 4294967296 ∧
  (∀ k ∈ x.key_ids, k.length = 16) ∧ x.data.length < 4294967296
instance (x : Pssh) : Decidable x.Wf := by unfold Pssh.Wf; infer_instance

def encPssh (x : Pssh) : Bytes :=
  encU8 x.version ++ (encU24 x.flags ++ (x.system_id ++
    ((if 0 < x.version then encU32 x.key_ids.length ++ encMany id x.key_ids else []) ++
    (encU32 x.data.length ++ x.data))))

def decPssh' (bs : Bytes) : Option (Pssh × Bytes) := do
  let (version, bs) ← decU8 bs
  let (flags, bs) ← decU24 bs
  let (sys, bs) ← takeN 16 bs
  if 0 < version then
    let (n, bs) ← decU32 bs
    let (kids, bs) ← decMany (takeN 16) n bs
    let (dl, bs) ← decU32 bs
    let (data, bs) ← takeN dl bs
    some ({ version := version, flags := flags, system_id := sys, key_ids := kids, data := data }, bs)
  else
    let (dl, bs) ← decU32 bs
    let (data, bs) ← takeN dl bs
    some ({ version := version, flags := flags, system_id := sys, key_ids := [], data := data }, bs)

def decPssh : Bytes → Option Pssh := exact decPssh'

end DashLive.Boxes
