import DashLive.Model.Bytes
/-!
Field codecs of the fixed-layout ISO-BMFF box classes of
`dashlive/mpeg/mp4.py` (payload = the bytes after the box header):

* `FullBox` version/flags prefix – mp4.py:1256-1269
* `mfhd` – :2292-2302, `tfdt` – :2192-2219 (incl. the switch to version 1 in
  `__setattr__`), `mehd` – :2329-2345, `trex` – :2222-2241,
  `tenc` – :2819-2839, `ftyp`/`styp` – :892-924

Every class `X` has a record `X`, `X.Wf` (the field values legal for the
version/flags: what `struct.pack` accepts and what `parse` can produce),
`encX : X → Bytes`, `decX' : Bytes → Option (X × Bytes)` (prefix decoder) and
`decX : Bytes → Option X` (the whole payload must be consumed – the model of
`Options(strict=True)`, mp4.py:485-490).  Import-free apart from `Model/Bytes`.
-/
namespace DashLive.Boxes
open DashLive.Bytes

/-- `flags & (1 << k) != 0` -/
def hasBit (f k : Nat) : Bool := f / 2 ^ k % 2 == 1

/-- optional field gated by a flag bit; absent fields are `0` in the record -/
def encOpt (c : Bool) (enc : Nat → Bytes) (v : Nat) : Bytes := if c then enc v else []
def decOpt (c : Bool) (dec : Bytes → Option (Nat × Bytes)) (bs : Bytes) : Option (Nat × Bytes) :=
  if c then dec bs else some (0, bs)

/-- 32- or 64-bit field chosen by the box version (`'Q' if version == 1 else 'I'`) -/
def encW (wide : Bool) (v : Nat) : Bytes := if wide then encU64 v else encU32 v
def decW (wide : Bool) (bs : Bytes) : Option (Nat × Bytes) := if wide then decU64 bs else decU32 bs
def wBound (wide : Bool) : Nat := if wide then 18446744073709551616 else 4294967296

/-- run a prefix decoder on a whole payload: nothing may be left over -/
def exact {α : Type} (d : Bytes → Option (α × Bytes)) (bs : Bytes) : Option α :=
  match d bs with
  | some (a, []) => some a
  | _ => none

/-! ### mfhd -/
structure Mfhd where
  version : Nat
  flags : Nat
  sequence_number : Nat
  deriving DecidableEq, Repr

def Mfhd.Wf (x : Mfhd) : Prop :=
  x.version < 256 ∧ x.flags < 16777216 ∧ x.sequence_number < 4294967296
instance instBasic1 (x : Mfhd) : Decidable x.Wf := by unfold Mfhd.Wf; infer_instance

def encMfhd (x : Mfhd) : Bytes :=
  encU8 x.version ++ (encU24 x.flags ++ encU32 x.sequence_number)

def decMfhd' (bs : Bytes) : Option (Mfhd × Bytes) :=
  andThen (decU8 bs) fun version bs =>
  andThen (decU24 bs) fun flags bs =>
  andThen (decU32 bs) fun seq bs =>
  some ({ version := version, flags := flags, sequence_number := seq }, bs)

def decMfhd : Bytes → Option Mfhd := exact decMfhd'

/-! ### tfdt -/
structure Tfdt where
  version : Nat
  flags : Nat
  base_media_decode_time : Nat
  deriving DecidableEq, Repr

def Tfdt.Wf (x : Tfdt) : Prop :=
  x.version < 256 ∧ x.flags < 16777216 ∧
  x.base_media_decode_time < wBound (x.version == 1)
instance instBasic2 (x : Tfdt) : Decidable x.Wf := by unfold Tfdt.Wf; infer_instance

/-- `encode_box_fields`: 64 bit iff `version == 1` -/
def encTfdt (x : Tfdt) : Bytes :=
  encU8 x.version ++ (encU24 x.flags ++
    encW (x.version == 1) x.base_media_decode_time)

def decTfdt' (bs : Bytes) : Option (Tfdt × Bytes) :=
  andThen (decU8 bs) fun version bs =>
  andThen (decU24 bs) fun flags bs =>
  andThen (decW (version == 1) bs) fun t bs =>
  some ({ version := version, flags := flags, base_media_decode_time := t }, bs)

def decTfdt : Bytes → Option Tfdt := exact decTfdt'

/-- `tfdt.base_media_decode_time = v` – `__setattr__`, mp4.py:2203-2212:
`if self.version == 0 and value.bit_length() > 32: version = 1; update_size(4)`.
Returns the new box and the `delta` handed to `update_size`. -/
def tfdtAssign (x : Tfdt) (v : Nat) : Tfdt × Nat :=
  if x.version = 0 ∧ 4294967296 ≤ v then
    ({ x with version := 1, base_media_decode_time := v }, 4)
  else ({ x with base_media_decode_time := v }, 0)

/-! ### mehd -/
structure Mehd where
  version : Nat
  flags : Nat
  fragment_duration : Nat
  deriving DecidableEq, Repr

def Mehd.Wf (x : Mehd) : Prop :=
  x.version < 256 ∧ x.flags < 16777216 ∧
  x.fragment_duration < wBound (x.version == 1)
instance instBasic3 (x : Mehd) : Decidable x.Wf := by unfold Mehd.Wf; infer_instance

def encMehd (x : Mehd) : Bytes :=
  encU8 x.version ++ (encU24 x.flags ++
    encW (x.version == 1) x.fragment_duration)

def decMehd' (bs : Bytes) : Option (Mehd × Bytes) :=
  andThen (decU8 bs) fun version bs =>
  andThen (decU24 bs) fun flags bs =>
  andThen (decW (version == 1) bs) fun t bs =>
  some ({ version := version, flags := flags, fragment_duration := t }, bs)

def decMehd : Bytes → Option Mehd := exact decMehd'

/-! ### trex -/
structure Trex where
  version : Nat
  flags : Nat
  track_id : Nat
  default_sample_description_index : Nat
  default_sample_duration : Nat
  default_sample_size : Nat
  default_sample_flags : Nat
  deriving DecidableEq, Repr

def Trex.Wf (x : Trex) : Prop :=
  x.version < 256 ∧ x.flags < 16777216 ∧ x.track_id < 4294967296 ∧
  x.default_sample_description_index < 4294967296 ∧ x.default_sample_duration < 4294967296 ∧
  x.default_sample_size < 4294967296 ∧ x.default_sample_flags < 4294967296
instance instBasic4 (x : Trex) : Decidable x.Wf := by unfold Trex.Wf; infer_instance

def encTrex (x : Trex) : Bytes :=
  encU8 x.version ++ (encU24 x.flags ++ (encU32 x.track_id ++
    (encU32 x.default_sample_description_index ++ (encU32 x.default_sample_duration ++
    (encU32 x.default_sample_size ++ encU32 x.default_sample_flags)))))

def decTrex' (bs : Bytes) : Option (Trex × Bytes) :=
  andThen (decU8 bs) fun version bs =>
  andThen (decU24 bs) fun flags bs =>
  andThen (decU32 bs) fun tid bs =>
  andThen (decU32 bs) fun dsdi bs =>
  andThen (decU32 bs) fun dsd bs =>
  andThen (decU32 bs) fun dss bs =>
  andThen (decU32 bs) fun dsf bs =>
  some ({ version := version, flags := flags, track_id := tid,
          default_sample_description_index := dsdi, default_sample_duration := dsd,
          default_sample_size := dss, default_sample_flags := dsf }, bs)

def decTrex : Bytes → Option Trex := exact decTrex'

/-! ### tenc (`is_encrypted` is the 24-bit field the code reads with `'3I'`) -/
structure Tenc where
  version : Nat
  flags : Nat
  is_encrypted : Nat
  iv_size : Nat
  default_kid : Bytes
  deriving DecidableEq, Repr

def Tenc.Wf (x : Tenc) : Prop :=
  x.version < 256 ∧ x.flags < 16777216 ∧ x.is_encrypted < 16777216 ∧ x.iv_size < 256 ∧
  x.default_kid.length = 16
instance instBasic5 (x : Tenc) : Decidable x.Wf := by unfold Tenc.Wf; infer_instance

def encTenc (x : Tenc) : Bytes :=
  encU8 x.version ++ (encU24 x.flags ++ (encU24 x.is_encrypted ++ (encU8 x.iv_size ++ x.default_kid)))

def decTenc' (bs : Bytes) : Option (Tenc × Bytes) :=
  andThen (decU8 bs) fun version bs =>
  andThen (decU24 bs) fun flags bs =>
  andThen (decU24 bs) fun enc bs =>
  andThen (decU8 bs) fun iv bs =>
  andThen (takeN 16 bs) fun kid bs =>
  some ({ version := version, flags := flags, is_encrypted := enc, iv_size := iv,
          default_kid := kid }, bs)

def decTenc : Bytes → Option Tenc := exact decTenc'

/-! ### ftyp / styp (brands are kept as their 4 bytes) -/
structure Ftyp where
  major_brand : Bytes
  minor_version : Nat
  compatible_brands : List Bytes
  deriving DecidableEq, Repr

def Ftyp.Wf (x : Ftyp) : Prop :=
  x.major_brand.length = 4 ∧ x.minor_version < 4294967296 ∧
  ∀ b ∈ x.compatible_brands, b.length = 4
instance instBasic6 (x : Ftyp) : Decidable x.Wf := by unfold Ftyp.Wf; infer_instance

def encFtyp (x : Ftyp) : Bytes :=
  x.major_brand ++ (encU32 x.minor_version ++ encMany id x.compatible_brands)

/-- `while size > 3: cb = read(4)` – as many brands as fit; the strict model
rejects 1–3 trailing bytes (the code ignores them and they are lost on encode) -/
def decBrands (bs : Bytes) : Option (List Bytes) :=
  if bs.length % 4 ≠ 0 then none else
    match decMany (takeN 4) (bs.length / 4) bs with
    | some (brands, _) => some brands
    | none => none

def decFtyp (bs : Bytes) : Option Ftyp :=
  andThen (takeN 4 bs) fun major bs =>
  andThen (decU32 bs) fun minor bs =>
  match decBrands bs with
  | some brands => some { major_brand := major, minor_version := minor, compatible_brands := brands }
  | none => none

end DashLive.Boxes
