import DashLive.Model.Bytes
/-!
ISO-BMFF box header – `Mp4Atom.parse` (mp4.py:562-611, as repaired by the
`fix:` commits: the size of a `size == 0` box includes its header) and
`Mp4Atom._encode_header` (the header form – compact 32-bit or `size == 1` +
64-bit `largesize` – is the one the box was parsed with).

Layout: `size:u32  type:4  [largesize:u64 if size == 1]  [usertype:16 if type == 'uuid']`.
-/
namespace DashLive.Boxes
open DashLive.Bytes

def uuidCC : Bytes := [117, 117, 105, 100]   -- "uuid"

/-- `atom_type`: a four-character code or `UUID(<32 hex digits>)` -/
inductive BoxType where
  | std (cc : Bytes)
  | uuid (id : Bytes)
  deriving DecidableEq, Repr

def BoxType.Wf : BoxType → Prop
  | .std cc => cc.length = 4 ∧ cc ≠ uuidCC
  | .uuid id => id.length = 16
instance instHeader1 (t : BoxType) : Decidable t.Wf := by cases t <;> unfold BoxType.Wf <;> infer_instance

def BoxType.cc : BoxType → Bytes
  | .std cc => cc
  | .uuid _ => uuidCC
def BoxType.ext : BoxType → Bytes
  | .std _ => []
  | .uuid id => id

/-- `header_size` -/
def hdrLen (t : BoxType) (large : Bool) : Nat :=
  4 + t.cc.length + (if large then 8 else 0) + t.ext.length

def encHeader (t : BoxType) (large : Bool) (size : Nat) : Bytes :=
  if large then encU32 1 ++ (t.cc ++ (encU64 size ++ t.ext))
  else encU32 size ++ (t.cc ++ t.ext)

structure Header where
  typ : BoxType
  large : Bool      -- size field was 1, the size is in `largesize`
  toEnd : Bool      -- size field was 0: the box extends to the end of the input
  size : Nat        -- resolved size of the whole box
  deriving DecidableEq, Repr

def Header.hdrSize (h : Header) : Nat := hdrLen h.typ h.large

/-- the `uuid` extension of the type -/
def decHeaderType (cc : Bytes) (large toEnd : Bool) (size : Nat) (bs : Bytes) :
    Option (Header × Bytes) :=
  if cc = uuidCC then
    andThen (takeN 16 bs) fun id bs =>
    some ({ typ := .uuid id, large := large, toEnd := toEnd, size := size }, bs)
  else some ({ typ := .std cc, large := large, toEnd := toEnd, size := size }, bs)

/-- `tail` = number of bytes between the end of `bs` and the end of the file: a
size field of 0 means "to the end of the *file*" (`src.seek(0, 2)`), also for a
box inside a container -/
def decHeader (tail : Nat) (bs : Bytes) : Option (Header × Bytes) :=
  andThen (decU32 bs) fun sz r1 =>
  andThen (takeN 4 r1) fun cc r2 =>
  if sz = 1 then
    andThen (decU64 r2) fun lsz r3 =>
    if lsz = 0 then none else decHeaderType cc true false lsz r3
  else if sz = 0 then decHeaderType cc false true (bs.length + tail) r2
  else decHeaderType cc false false sz r2

/-- the sizes a header of the given form can carry -/
def sizeOk (large : Bool) (n : Nat) : Prop :=
  if large then 0 < n ∧ n < 18446744073709551616 else 2 ≤ n ∧ n < 4294967296
instance instHeader2 (l : Bool) (n : Nat) : Decidable (sizeOk l n) := by unfold sizeOk; infer_instance

end DashLive.Boxes
