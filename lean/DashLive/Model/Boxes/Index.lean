import DashLive.Model.Boxes.Basic
/-!
`sidx` (+ bit-packed `SegmentReference`) – mp4.py:2907-2983 and `emsg`
(versions 0 and 1) – mp4.py:2986-3034.
-/
namespace DashLive.Boxes
open DashLive.Bytes

/-! ### sidx -/
structure SidxRef where
  ref_type : Nat            -- 1 bit
  ref_size : Nat            -- 31 bits
  duration : Nat            -- 32 bits
  starts_with_SAP : Nat     -- 1 bit
  SAP_type : Nat            -- 3 bits
  SAP_delta_time : Nat      -- 28 bits
  deriving DecidableEq, Repr

def SidxRef.Wf (r : SidxRef) : Prop :=
  r.ref_type < 2 ∧ r.ref_size < 2147483648 ∧ r.duration < 4294967296 ∧
  r.starts_with_SAP < 2 ∧ r.SAP_type < 8 ∧ r.SAP_delta_time < 268435456
instance instIndex1 (r : SidxRef) : Decidable r.Wf := by unfold SidxRef.Wf; infer_instance

/-- `SegmentReference.encode` (`writebits` 1+31, 32, 1+3+28) -/
def encSidxRef (r : SidxRef) : Bytes :=
  encU32 (r.ref_type * 2147483648 + r.ref_size) ++ (encU32 r.duration ++
    encU32 (r.starts_with_SAP * 2147483648 + r.SAP_type * 268435456 + r.SAP_delta_time))

def decSidxRef (bs : Bytes) : Option (SidxRef × Bytes) :=
  andThen (decU32 bs) fun a bs =>
  andThen (decU32 bs) fun d bs =>
  andThen (decU32 bs) fun c bs =>
  some ({ ref_type := a / 2147483648, ref_size := a % 2147483648, duration := d,
          starts_with_SAP := c / 2147483648, SAP_type := c / 268435456 % 8,
          SAP_delta_time := c % 268435456 }, bs)

structure Sidx where
  version : Nat
  flags : Nat
  reference_id : Nat
  timescale : Nat
  earliest_presentation_time : Nat    -- 32 bit iff version == 0
  first_offset : Nat                  -- 32 bit iff version == 0
  references : List SidxRef
  deriving DecidableEq, Repr

def Sidx.Wf (x : Sidx) : Prop :=
  x.version < 256 ∧ x.flags < 16777216 ∧ x.reference_id < 4294967296 ∧ x.timescale < 4294967296 ∧
  x.earliest_presentation_time < wBound (x.version != 0) ∧
  x.first_offset < wBound (x.version != 0) ∧
  x.references.length < 65536 ∧ ∀ r ∈ x.references, r.Wf
instance instIndex2 (x : Sidx) : Decidable x.Wf := by unfold Sidx.Wf; infer_instance

def encSidx (x : Sidx) : Bytes :=
  encU8 x.version ++ (encU24 x.flags ++ (encU32 x.reference_id ++ (encU32 x.timescale ++
    (encW (x.version != 0) x.earliest_presentation_time ++ (encW (x.version != 0) x.first_offset ++
    (encU16 0 ++ (encU16 x.references.length ++ encMany encSidxRef x.references)))))))

/-- returns the box and the value of the 16 reserved bits that `parse` skips
(`r.skip(2)`) and `encode` writes as 0 -/
def decSidxR' (bs : Bytes) : Option ((Sidx × Nat) × Bytes) :=
  andThen (decU8 bs) fun version bs =>
  andThen (decU24 bs) fun flags bs =>
  andThen (decU32 bs) fun rid bs =>
  andThen (decU32 bs) fun ts bs =>
  andThen (decW (version != 0) bs) fun ept bs =>
  andThen (decW (version != 0) bs) fun fo bs =>
  andThen (decU16 bs) fun reserved bs =>
  andThen (decU16 bs) fun n bs =>
  andThen (decMany decSidxRef n bs) fun refs bs =>
  some (({ version := version, flags := flags, reference_id := rid, timescale := ts,
           earliest_presentation_time := ept, first_offset := fo, references := refs }, reserved), bs)

def decSidx (bs : Bytes) : Option Sidx := (exact decSidxR' bs).map (·.1)
/-- the reserved bits of a `sidx` payload (for the canonical-input hypothesis) -/
def sidxReserved (bs : Bytes) : Option Nat := (exact decSidxR' bs).map (·.2)

/-! ### emsg -/
structure Emsg where
  version : Nat                       -- 0 or 1
  flags : Nat
  scheme_id_uri : Bytes               -- UTF-8 bytes without NUL
  value : Bytes
  timescale : Nat
  presentation_time_delta : Nat       -- version 0 (u32); 0 in version 1
  presentation_time : Nat             -- version 1 (u64); 0 in version 0
  event_duration : Nat
  event_id : Nat
  data : Bytes                        -- `None` = empty
  deriving DecidableEq, Repr

def Emsg.Wf (x : Emsg) : Prop :=
  x.version < 2 ∧ x.flags < 16777216 ∧ (∀ b ∈ x.scheme_id_uri, b ≠ 0) ∧ (∀ b ∈ x.value, b ≠ 0) ∧
  x.timescale < 4294967296 ∧ x.event_duration < 4294967296 ∧ x.event_id < 4294967296 ∧
  (if x.version = 0 then x.presentation_time_delta < 4294967296 ∧ x.presentation_time = 0
   else x.presentation_time < 18446744073709551616 ∧ x.presentation_time_delta = 0)
instance instIndex3 (x : Emsg) : Decidable x.Wf := by unfold Emsg.Wf; infer_instance

def encEmsg (x : Emsg) : Bytes :=
  encU8 x.version ++ (encU24 x.flags ++
    (if x.version = 0 then
      encCStr x.scheme_id_uri ++ (encCStr x.value ++ (encU32 x.timescale ++
        (encU32 x.presentation_time_delta ++ (encU32 x.event_duration ++
        (encU32 x.event_id ++ x.data)))))
    else
      encU32 x.timescale ++ (encU64 x.presentation_time ++ (encU32 x.event_duration ++
        (encU32 x.event_id ++ (encCStr x.scheme_id_uri ++ (encCStr x.value ++ x.data)))))))

def decEmsgV0 (version flags : Nat) (bs : Bytes) : Option Emsg :=
  andThen (decCStr bs) fun scheme bs =>
  andThen (decCStr bs) fun value bs =>
  andThen (decU32 bs) fun ts bs =>
  andThen (decU32 bs) fun ptd bs =>
  andThen (decU32 bs) fun dur bs =>
  andThen (decU32 bs) fun eid bs =>
  some { version := version, flags := flags, scheme_id_uri := scheme, value := value,
         timescale := ts, presentation_time_delta := ptd, presentation_time := 0,
         event_duration := dur, event_id := eid, data := bs }

def decEmsgV1 (version flags : Nat) (bs : Bytes) : Option Emsg :=
  andThen (decU32 bs) fun ts bs =>
  andThen (decU64 bs) fun pt bs =>
  andThen (decU32 bs) fun dur bs =>
  andThen (decU32 bs) fun eid bs =>
  andThen (decCStr bs) fun scheme bs =>
  andThen (decCStr bs) fun value bs =>
  some { version := version, flags := flags, scheme_id_uri := scheme, value := value,
         timescale := ts, presentation_time_delta := 0, presentation_time := pt,
         event_duration := dur, event_id := eid, data := bs }

/-- versions ≥ 2 are outside the model (the code keeps only `data` for them) -/
def decEmsg (bs : Bytes) : Option Emsg :=
  andThen (decU8 bs) fun version bs =>
  andThen (decU24 bs) fun flags bs =>
  if version = 0 then decEmsgV0 version flags bs
  else if version = 1 then decEmsgV1 version flags bs
  else none

end DashLive.Boxes
