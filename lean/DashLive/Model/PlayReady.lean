/-
Model of `dashlive/drm/playready.py` (class `PlayReady`) for property C11, and
of the `pssh` box framing of `dashlive/mpeg/mp4.py`
(`ContentProtectionSpecificBox`, lines 2843-2904) shared with C10.

Import-free (core Lean only) so that the line-protocol driver can be compiled.

Bytes are `List UInt8`.  Python exceptions are `none` (the harness maps the
real exception to the same token).  The hash and the block cipher are
*parameters* (`H`, `Enc`): every theorem holds for any hash / cipher, the driver
instantiates them with `Model/Sha256.lean` and `Model/Aes128.lean`.

Not modelled here: the text of the WRMHEADER XML (Jinja templates
`templates/drm/wrmheader4x.xml`) – it is a parameter (`wrm`, the payload bytes)
tied to the code by the `prheader` correspondence channel only.
-/
namespace DashLive.PlayReady

abbrev Bytes := List UInt8

/-! ### integer packing (`struct.pack`) -/

/-- `struct.pack('<H', n)` (caller guarantees `n < 2¹⁶`) -/
def le16 (n : Nat) : Bytes := [UInt8.ofNat (n % 256), UInt8.ofNat (n / 256 % 256)]

/-- `struct.pack('<I', n)` (caller guarantees `n < 2³²`) -/
def le32 (n : Nat) : Bytes :=
  [UInt8.ofNat (n % 256), UInt8.ofNat (n / 256 % 256), UInt8.ofNat (n / 65536 % 256),
   UInt8.ofNat (n / 16777216 % 256)]

/-- `struct.pack('>I', n)` (caller guarantees `n < 2³²`) -/
def be32 (n : Nat) : Bytes :=
  [UInt8.ofNat (n / 16777216 % 256), UInt8.ofNat (n / 65536 % 256), UInt8.ofNat (n / 256 % 256),
   UInt8.ofNat (n % 256)]

/-- `struct.unpack('<H', b)[0]` of the first two bytes (0 for missing bytes; callers check lengths) -/
def le16val (b : Bytes) : Nat := (b.getD 0 0).toNat + 256 * (b.getD 1 0).toNat

def le32val (b : Bytes) : Nat :=
  (b.getD 0 0).toNat + 256 * (b.getD 1 0).toNat + 65536 * (b.getD 2 0).toNat
    + 16777216 * (b.getD 3 0).toNat

def be32val (b : Bytes) : Nat :=
  16777216 * (b.getD 0 0).toNat + 65536 * (b.getD 1 0).toNat + 256 * (b.getD 2 0).toNat
    + (b.getD 3 0).toNat

/-! ### GUID byte order – `hex_to_le_guid`, playready.py:93-112 -/

/-- the slicing of lines 102-108 at byte granularity (each byte = two hex digits):
`dword = g[3],g[2],g[1],g[0]`, `word1 = g[5],g[4]`, `word2 = g[7],g[6]`,
`word3 = g[8],g[9]` (*not* swapped, see the comment in the code), then `g[10:]`. -/
def leGuidBytes (g : Bytes) : Bytes :=
  (g.take 4).reverse ++ ((g.drop 4).take 2).reverse ++ ((g.drop 6).take 2).reverse
    ++ (g.drop 8).take 2 ++ g.drop 10

/-- `PlayReady.hex_to_le_guid(guid, raw=True)`: `ValueError` (here `none`) unless 16 bytes -/
def hexToLeGuid (g : Bytes) : Option Bytes :=
  if g.length ≠ 16 then none else some (leGuidBytes g)

/-! ### key-seed derivation – `generate_content_key`, playready.py:125-168 -/

/-- `DRM_AES_KEYSIZE_128` -/
def keySize : Nat := 16

/-- the loop of lines 163-167: `contentKey = bytearray(16)` then
`contentKey[i] = A[i]^A[i+16]^B[i]^B[i+16]^C[i]^C[i+16]` for `i in range(16)` -/
def foldKey (a b c : Bytes) : Bytes :=
  (List.range keySize).foldl
    (fun key i => key.set i
      (a.getD i 0 ^^^ a.getD (i + keySize) 0 ^^^ b.getD i 0 ^^^ b.getD (i + keySize) 0
        ^^^ c.getD i 0 ^^^ c.getD (i + keySize) 0))
    (List.replicate keySize 0)

/-- `PlayReady.generate_content_key(keyId, keySeed)`; `H` is the hash
(`SHA256.new(); update…; digest()` = hash of the concatenation of the updates).
`none` = `ValueError` (kid not 16 bytes, seed shorter than 30 bytes). -/
def contentKey (H : Bytes → Bytes) (seed kid : Bytes) : Option Bytes :=
  if kid.length ≠ 16 then none else
  match hexToLeGuid kid with
  | none => none
  | some k =>
    if seed.length < 30 then none else
    let s := seed.take 30
    let shaA := H (s ++ k)
    let shaB := H (s ++ k ++ s)
    let shaC := H (s ++ k ++ s ++ k)
    some (foldKey shaA shaB shaC)

/-! ### checksum – `generate_checksum`, playready.py:114-121 -/

/-- first 8 bytes of `Enc key (le_guid kid)`; `Enc` = AES-128-ECB of one block -/
def checksum (Enc : Bytes → Bytes → Bytes) (key kid : Bytes) : Option Bytes :=
  match hexToLeGuid kid with
  | none => none
  | some g => some ((Enc key g).take 8)

/-! ### UTF-16 coding of the WRMHEADER – playready.py:230-234 -/

/-- UTF-16 code units of one Unicode scalar value -/
def utf16Units (c : Nat) : List Nat :=
  if c < 0x10000 then [c] else [0xD800 + (c - 0x10000) / 1024, 0xDC00 + (c - 0x10000) % 1024]

def unitLE (u : Nat) : Bytes := [UInt8.ofNat (u % 256), UInt8.ofNat (u / 256)]

/-- `text.encode('utf-16-le')` of a list of scalar values -/
def utf16le (s : List Nat) : Bytes := s.flatMap fun c => (utf16Units c).flatMap unitLE

/-- `text.encode('utf-16')` on a little-endian host: byte order mark FF FE, then UTF-16LE -/
def encodeUtf16 (s : List Nat) : Bytes := [0xFF, 0xFE] ++ utf16le s

/-- lines 231-233: `if wrm[0] == 0xFF and wrm[1] == 0xFE: wrm = wrm[2:]` -/
def stripBom : Bytes → Bytes
  | 0xFF :: 0xFE :: rest => rest
  | w => w

/-- the bytes `generate_wrmheader` returns for the rendered, whitespace-stripped XML text -/
def wrmBytes (xml : List Nat) : Bytes := stripBom (encodeUtf16 xml)

/-- UTF-16LE decoder (strict: unpaired surrogates / odd length are `none`) -/
def decodeUtf16le : Bytes → Option (List Nat)
  | [] => some []
  | [_] => none
  | [a, b] =>
    let u := a.toNat + 256 * b.toNat
    if 0xD800 ≤ u ∧ u < 0xE000 then none else some [u]
  | [_, _, _] => none
  | a :: b :: c :: d :: rest =>
    let u := a.toNat + 256 * b.toNat
    if 0xD800 ≤ u ∧ u < 0xDC00 then
      let v := c.toNat + 256 * d.toNat
      if 0xDC00 ≤ v ∧ v < 0xE000 then
        (decodeUtf16le rest).map ((0x10000 + (u - 0xD800) * 1024 + (v - 0xDC00)) :: ·)
      else none
    else if 0xDC00 ≤ u ∧ u < 0xE000 then none
    else (decodeUtf16le (c :: d :: rest)).map (u :: ·)

/-! ### PlayReady Object framing – `generate_pro` / `parse_pro`, playready.py:236-277 -/

/-- `generate_pro` for a WRMHEADER of bytes `wrm`:
`record = pack('<HH', 1, len(wrm)) + wrm; pro = pack('<IH', len(record)+6, 1) + record`.
`none` = `struct.error` (`len(wrm)` does not fit 16 bits). -/
def generatePro (wrm : Bytes) : Option Bytes :=
  if wrm.length ≥ 65536 then none else
  let record := le16 1 ++ le16 wrm.length ++ wrm
  some (le32 (record.length + 6) ++ le16 1 ++ record)

structure Record where
  recordType : Nat
  length : Nat
  /-- the record's bytes; only read for type 1 (the code does not skip other records' data) -/
  payload : Option Bytes
  deriving DecidableEq, Repr

/-- the `for idx in range(object_count)` loop of `parse_pro` -/
def parseRecords : Nat → Bytes → Option (List Record)
  | 0, _ => some []
  | n + 1, bs =>
    if bs.length < 4 then none else       -- `OSError("PlayReady Object too small")`
    let rt := le16val bs
    let rl := le16val (bs.drop 2)
    let rest := bs.drop 4
    if rt = 1 then
      if rest.length < rl then none else
      (parseRecords n (rest.drop rl)).map (⟨rt, rl, some (rest.take rl)⟩ :: ·)
    else
      (parseRecords n rest).map (⟨rt, rl, none⟩ :: ·)

/-- `PlayReady.parse_pro(src)` up to (not including) the text decode / XML parse -/
def parsePro (bs : Bytes) : Option (List Record) :=
  if bs.length < 6 then none else parseRecords (le16val (bs.drop 4)) (bs.drop 6)

/-! ### `pssh` box framing – mp4.py:2843-2904 (+ box header of `Mp4Atom.encode`, FullBox) -/

/-- the box type `pssh` -/
def psshType : Bytes := [0x70, 0x73, 0x73, 0x68]

/-- `ContentProtectionSpecificBox(version, flags=0, system_id, key_ids, data).encode()`:
size(4, big endian) `pssh` version(1) flags(3) system_id(16)
[`version > 0`: kid_count(4) kids…] data_len(4) data.  `data=None` and `data=b''`
both encode as length 0. -/
def psshBody (version : Nat) (sys : Bytes) (kids : List Bytes) (data : Bytes) : Bytes :=
  [UInt8.ofNat version, 0, 0, 0] ++ sys
    ++ (if version > 0 then be32 kids.length ++ kids.flatten else [])
    ++ be32 data.length ++ data

def encodePssh (version : Nat) (sys : Bytes) (kids : List Bytes) (data : Bytes) : Bytes :=
  let body := psshBody version sys kids data
  be32 (8 + body.length) ++ psshType ++ body

/-- read `n` key ids of 16 bytes -/
def takeKids : Nat → Bytes → Option (List Bytes × Bytes)
  | 0, bs => some ([], bs)
  | n + 1, bs =>
    if bs.length < 16 then none else
    (takeKids n (bs.drop 16)).map fun (ks, r) => (bs.take 16 :: ks, r)

structure Pssh where
  version : Nat
  sys : Bytes
  kids : List Bytes
  data : Bytes
  deriving DecidableEq, Repr

/-- decoder for one complete `pssh` box (independent reading of ISO/IEC 23001-7 §8.1):
`none` unless the box is exactly as long as its size field says and fully consumed -/
def decodePssh (bs : Bytes) : Option Pssh :=
  if bs.length < 32 then none else
  if be32val bs ≠ bs.length then none else
  if (bs.drop 4).take 4 ≠ psshType then none else
  let version := (bs.getD 8 0).toNat
  let sys := (bs.drop 12).take 16
  let rest := bs.drop 28
  let kidsRest : Option (List Bytes × Bytes) :=
    if version > 0 then
      if rest.length < 4 then none else takeKids (be32val rest) (rest.drop 4)
    else some ([], rest)
  match kidsRest with
  | none => none
  | some (kids, r) =>
    if r.length < 4 then none else
    if be32val r ≠ (r.drop 4).length then none else
    some ⟨version, sys, kids, r.drop 4⟩

/-- `PlayReady.RAW_SYSTEM_ID` = 9a04f079-9840-4286-ab92-e65be0885f95 -/
def playreadySystemId : Bytes :=
  [0x9a, 0x04, 0xf0, 0x79, 0x98, 0x40, 0x42, 0x86, 0xab, 0x92, 0xe6, 0x5b, 0xe0, 0x88, 0x5f, 0x95]

/-- the version rule of `PlayReady.generate_pssh` (playready.py:328-346):
fewer than two keys ⇒ version 0 without key ids, else version 1 listing every key id -/
def playreadyPsshVersion (kids : List Bytes) : Nat := if kids.length < 2 then 0 else 1

/-- `PlayReady.generate_pssh(...).encode()` given the key ids (dict order) and the PRO bytes -/
def playreadyPssh (kids : List Bytes) (pro : Bytes) : Bytes :=
  if kids.length < 2 then encodePssh 0 playreadySystemId [] pro
  else encodePssh 1 playreadySystemId kids pro

/-! ### header / PlayReady version selection and manifest context – playready.py:196-213, 279-326, 378-408 -/

/-- header versions ×10 (40, 41, 42, 43) – `minimum_header_version` with `self.version = None`
(`DrmContext` always constructs `PlayReady()` without a version) -/
def minimumHeaderVersion (lastAlgIsAesCtr : Bool) (nkeys : Nat) : Nat :=
  if !lastAlgIsAesCtr then 43 else if nkeys = 1 then 40 else 42

/-- `minimum_playready_version` (×10) -/
def minimumPlayreadyVersion (headerVersion : Nat) : Nat :=
  if headerVersion = 43 then 40 else if headerVersion = 42 then 30 else 20

inductive Loc | cenc | moov | pro
  deriving DecidableEq, Repr

structure Hooks where
  cenc : Bool
  moov : Bool
  pro : Bool
  /-- scheme id is the v1.0 (byte-swapped) system id -/
  v10 : Bool
  deriving DecidableEq, Repr

/-- which generator hooks `PlayReady.generate_manifest_context` sets (lines 305-326);
`version` is the `playready__version` option ×10 (`none` = not given) -/
def playreadyHooks (version : Option Nat) (lastAlgIsAesCtr : Bool) (nkeys : Nat)
    (locs : List Loc) : Hooks :=
  let v := match version with
    | some v => v
    | none => minimumPlayreadyVersion (minimumHeaderVersion lastAlgIsAesCtr nkeys)
  { cenc := locs.contains .cenc && decide (v > 10),
    moov := locs.contains .moov,
    pro := locs.contains .pro,
    v10 := v == 10 }

end DashLive.PlayReady
