/-
Bit-level writer/reader used by the SCTE-35 / MPEG section model (property C14):
`dashlive/utils/fio/bits_field_writer.py` (`BitsFieldWriter.write`, `overwrite`,
`bitpos`) and `bits_field_reader.py` (`BitsFieldReader.get/read`, `bitpos`,
`bytepos`), which wrap `bitstring.BitArray` / `ConstBitStream`.

A bit string is a `List Bool`, most significant bit first.  Import-free.
-/
namespace DashLive.Bits

abbrev Bits := List Bool

/-- `bitstring.Bits(uint=v, length=n)`: `n` bits, MSB first.  (bitstring raises
when `v ≥ 2^n`; the model reduces modulo `2^n` and every theorem carries the
range hypothesis.) -/
def putBits : Nat → Nat → Bits
  | 0, _ => []
  | n+1, v => v.testBit n :: putBits n v

/-- unsigned value of a bit string, MSB first (`read('uint:n')`) -/
def bitsToNat (l : Bits) : Nat := l.foldl (fun acc b => 2 * acc + b.toNat) 0

/-- `BitsFieldWriter.overwrite(position, size, value)` on the buffer `w` -/
def overwrite (w : Bits) (pos n v : Nat) : Bits :=
  w.take pos ++ putBits n v ++ w.drop (pos + n)

/-- reader state: `pos` = `bitpos()` (bits consumed so far), `rest` = unread bits -/
structure Rd where
  pos  : Nat
  rest : Bits
  deriving Repr, DecidableEq

/-- `BitsFieldReader.get(size)` – `none` models bitstring's `ReadError` -/
def Rd.get (r : Rd) (n : Nat) : Option (Nat × Rd) :=
  if r.rest.length < n then none
  else some (bitsToNat (r.rest.take n), ⟨r.pos + n, r.rest.drop n⟩)

/-- `get(1)` returns a `bool` -/
def Rd.getBool (r : Rd) : Option (Bool × Rd) :=
  match r.rest with
  | [] => none
  | b :: rest => some (b, ⟨r.pos + 1, rest⟩)

/-- `read_bytes(length)`: whole bytes as numbers -/
def Rd.getBytes (r : Rd) : Nat → Option (List Nat × Rd)
  | 0 => some ([], r)
  | k+1 => do
    let (b, r) ← r.get 8
    let (bs, r) ← Rd.getBytes r k
    some (b :: bs, r)

/-- `bytepos()` = `bitpos // 8` -/
def Rd.bytepos (r : Rd) : Nat := r.pos / 8

/-- `write_bytes(value)` -/
def putBytes (bs : List Nat) : Bits := bs.flatMap (putBits 8)

/-- `Bits.bytes` (`toBytes()`): `none` when not a whole number of bytes -/
def toBytes : Bits → Option (List Nat)
  | [] => some []
  | b7 :: b6 :: b5 :: b4 :: b3 :: b2 :: b1 :: b0 :: rest =>
    (toBytes rest).map (bitsToNat [b7, b6, b5, b4, b3, b2, b1, b0] :: ·)
  | _ => none

end DashLive.Bits
