/-
SHA-256 (FIPS 180-4) over byte lists – the executable instance of the hash
parameter `H` of `DashLive.PlayReady.contentKey` used by the line-protocol
driver.  **No theorem is claimed about this file**: it is tied to
`hashlib.sha256` / `Crypto.Hash.SHA256` on every run by the `sha256` channel
(NIST vectors, every length 0..200 and random inputs).  Import-free.
-/
namespace DashLive.Sha256

def K : Array UInt32 := #[
  0x428a2f98, 0x71374491, 0xb5c0fbcf, 0xe9b5dba5, 0x3956c25b, 0x59f111f1, 0x923f82a4, 0xab1c5ed5,
  0xd807aa98, 0x12835b01, 0x243185be, 0x550c7dc3, 0x72be5d74, 0x80deb1fe, 0x9bdc06a7, 0xc19bf174,
  0xe49b69c1, 0xefbe4786, 0x0fc19dc6, 0x240ca1cc, 0x2de92c6f, 0x4a7484aa, 0x5cb0a9dc, 0x76f988da,
  0x983e5152, 0xa831c66d, 0xb00327c8, 0xbf597fc7, 0xc6e00bf3, 0xd5a79147, 0x06ca6351, 0x14292967,
  0x27b70a85, 0x2e1b2138, 0x4d2c6dfc, 0x53380d13, 0x650a7354, 0x766a0abb, 0x81c2c92e, 0x92722c85,
  0xa2bfe8a1, 0xa81a664b, 0xc24b8b70, 0xc76c51a3, 0xd192e819, 0xd6990624, 0xf40e3585, 0x106aa070,
  0x19a4c116, 0x1e376c08, 0x2748774c, 0x34b0bcb5, 0x391c0cb3, 0x4ed8aa4a, 0x5b9cca4f, 0x682e6ff3,
  0x748f82ee, 0x78a5636f, 0x84c87814, 0x8cc70208, 0x90befffa, 0xa4506ceb, 0xbef9a3f7, 0xc67178f2]

def H0 : Array UInt32 := #[
  0x6a09e667, 0xbb67ae85, 0x3c6ef372, 0xa54ff53a, 0x510e527f, 0x9b05688c, 0x1f83d9ab, 0x5be0cd19]

def rotr (x : UInt32) (n : UInt32) : UInt32 := (x >>> n) ||| (x <<< (32 - n))

def be64 (n : Nat) : List UInt8 :=
  [56, 48, 40, 32, 24, 16, 8, 0].map fun s => UInt8.ofNat ((n >>> s) % 256)

/-- message ‖ 0x80 ‖ 0…0 ‖ bit length (64 bit big endian); total length ≡ 0 mod 64 -/
def pad (msg : List UInt8) : List UInt8 :=
  let l := msg.length
  msg ++ [0x80] ++ List.replicate ((119 - l % 64) % 64) 0 ++ be64 (l * 8)

def word (a b c d : UInt8) : UInt32 :=
  (a.toUInt32 <<< 24) ||| (b.toUInt32 <<< 16) ||| (c.toUInt32 <<< 8) ||| d.toUInt32

def toWords : List UInt8 → Array UInt32 → Array UInt32
  | a :: b :: c :: d :: rest, acc => toWords rest (acc.push (word a b c d))
  | _, acc => acc

def schedule (w0 : Array UInt32) : Array UInt32 := Id.run do
  let mut w := w0
  for i in [16:64] do
    let x := w[i - 15]!
    let y := w[i - 2]!
    let s0 := rotr x 7 ^^^ rotr x 18 ^^^ (x >>> 3)
    let s1 := rotr y 17 ^^^ rotr y 19 ^^^ (y >>> 10)
    w := w.push (w[i - 16]! + s0 + w[i - 7]! + s1)
  return w

def compress (h : Array UInt32) (chunk : List UInt8) : Array UInt32 := Id.run do
  let w := schedule (toWords chunk #[])
  let mut a := h[0]!
  let mut b := h[1]!
  let mut c := h[2]!
  let mut d := h[3]!
  let mut e := h[4]!
  let mut f := h[5]!
  let mut g := h[6]!
  let mut hh := h[7]!
  for i in [0:64] do
    let s1 := rotr e 6 ^^^ rotr e 11 ^^^ rotr e 25
    let ch := (e &&& f) ^^^ ((~~~ e) &&& g)
    let t1 := hh + s1 + ch + K[i]! + w[i]!
    let s0 := rotr a 2 ^^^ rotr a 13 ^^^ rotr a 22
    let maj := (a &&& b) ^^^ (a &&& c) ^^^ (b &&& c)
    let t2 := s0 + maj
    hh := g; g := f; f := e; e := d + t1
    d := c; c := b; b := a; a := t1 + t2
  return #[h[0]! + a, h[1]! + b, h[2]! + c, h[3]! + d, h[4]! + e, h[5]! + f, h[6]! + g, h[7]! + hh]

/-- fold `compress` over 64-byte chunks; `fuel` = number of chunks -/
def chunks : Nat → Array UInt32 → List UInt8 → Array UInt32
  | 0, h, _ => h
  | n + 1, h, bs => if bs.isEmpty then h else chunks n (compress h (bs.take 64)) (bs.drop 64)

def wordBytes (w : UInt32) : List UInt8 :=
  [(w >>> 24).toUInt8, (w >>> 16).toUInt8, (w >>> 8).toUInt8, w.toUInt8]

def sha256 (msg : List UInt8) : List UInt8 :=
  let p := pad msg
  ((chunks (p.length / 64 + 1) H0 p).toList).flatMap wordBytes

end DashLive.Sha256
