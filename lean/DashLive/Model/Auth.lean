/-!
# Model of dash-live's authorisation guards (property C15)

Anchors: `dashlive/server/requesthandler/decorators.py:43-112` (`login_required`,
`jwt_login_required`, `csrf_token_required`), the `uses_*` loaders (`:114-300`),
`spa_handler` (`:302-314`), `dashlive/server/models/user.py:97-160`
(`is_authenticated`, `is_admin`, `has_permission`), `server/anonymous_user.py`,
`flask.views.View.as_view` (class `decorators` are applied in list order, so the
last one is outermost) and Python's decorator syntax (top one is outermost).

A request carries **two independent identities**: the flask_login session identity
(`current_user`) and the owner of the presented bearer token (`jwt_current_user`).  They are
separate inputs of every guard; a caller may combine any session it holds with any token it
holds (its own, or the guest token `GET /api/refresh/access` issues to everybody).  The three
named identities are the group memberships docs/users.md describes and the harness users carry:
`user` = {USER}, `media` = {USER, MEDIA}, `admin` = {ADMIN}.  What a caller may do is the
union of what the identities it holds may do (`mayChange`).

What is **not** modelled (trusted): how flask_login / Flask-JWT-Extended turn a
session cookie / bearer token into `current_user` / `jwt_current_user`.  The model
starts from "the server has identified the caller as …".
-/
namespace DashLive.Auth

/-- `dashlive.server.models.group.Group` -/
inductive Perm | user | media | admin
  deriving DecidableEq, Repr

inductive Method | GET | HEAD | POST | PUT | DELETE | PATCH
  deriving DecidableEq, Repr

/-- role docs/users.md assigns to the state a route changes (hand-written map in
`harness/gen_routes.py`); `none`: no role is documented as allowed to change state there -/
inductive Kind | none | media | admin | self
  deriving DecidableEq, Repr

/-- an identity the server can compute for a request: `nobody` = flask_login's `AnonymousUser`
(or, as a target, an account the caller holds no credential for); `guest` = the
`_AnonymousUser_` row for which `GET /api/refresh/access` issues access tokens to every
visitor (`user_management.py:270-283`); `user`/`media`/`admin` = an account with that group set -/
inductive Ident | nobody | guest | user | media | admin
  deriving DecidableEq, Repr, Inhabited

/-- `User.is_authenticated` (user.py:97-101: false for the guest account),
`AnonymousUserMixin.is_authenticated` = False -/
def Ident.isAuthenticated : Ident → Bool
  | .nobody => false | .guest => false | _ => true

/-- `User.is_admin` (user.py:137-142) -/
def Ident.isAdmin : Ident → Bool
  | .admin => true | _ => false

/-- `User.has_permission` (user.py:150-158): member of the group, or admin;
`AnonymousUser.has_permission` = False; the guest account has `groups_mask = 0` -/
def Ident.hasPermission : Ident → Perm → Bool
  | .admin, _ => true
  | .media, .user => true
  | .media, .media => true
  | .user, .user => true
  | _, _ => false

/-- same account (pattern matching, cheap for the kernel); `nobody` is never "the same account" -/
def Ident.same : Ident → Ident → Bool
  | .guest, .guest | .user, .user | .media, .media | .admin, .admin => true
  | _, _ => false

/-- documented rank of an identity: anonymous/guest 0 < user 1 < media 2 < admin 3 -/
def Ident.rank : Ident → Nat
  | .nobody => 0 | .guest => 0 | .user => 1 | .media => 2 | .admin => 3

/-- **Identity lookup.**  Both identity loaders (`app.py:176-189`: Flask-JWT-Extended's
`user_lookup_loader` with the token's `sub`, flask_login's `user_loader` with the session's
`_user_id`) call `User.get_one(username=identity)`: `WHERE username = ?`, exact, case-sensitive
equality on the stored name (`username` is UNIQUE).  `accounts` are the stored rows in primary-key
order; the result is the first row whose name equals `name` – characters that are special to
other lookup machinery (`_`, `%`, case, surrounding spaces, prefixes) have no meaning here. -/
def lookupAccount {α : Type} (accounts : List (String × α)) (name : String) : Option α :=
  (accounts.find? fun a => a.1 == name).map Prod.snd

/-- The parts of a request the guards look at.  Finite, enumerated completely (`allRequests`). -/
structure Request where
  /-- flask_login's `current_user`: the account of the session cookie presented, `nobody` without one -/
  session : Ident
  /-- Flask-JWT-Extended's `current_user`: the owner of the bearer token presented, `none` without one.
  Independent of `session`. -/
  token : Option Ident
  /-- the presented token is a refresh token (else an access token); the guest account only ever
  gets access tokens -/
  tokenIsRefresh : Bool
  /-- `utils.is_ajax()`: JSON body or `ajax=1` -/
  ajax : Bool
  /-- the object named in the URL exists (what the `uses_*` loaders test) -/
  targetExists : Bool
  /-- the user row named in the URL (`EditUser`): one of the accounts above, `nobody` = some
  other account -/
  target : Ident
  /-- a `csrf_token` parameter is present -/
  csrfPresent : Bool
  /-- `CsrfProtection.check(service, token)` succeeds for the service the guard names
  (the conservative reading for the role theorems: a lesser caller may hold a valid token
  for every service) -/
  csrfOk : Bool
  deriving DecidableEq, Repr

def Request.withSession (r : Request) (s : Ident) : Request := { r with session := s }

def Request.withToken (r : Request) (t : Option Ident) (refresh : Bool) : Request :=
  { r with token := t, tokenIsRefresh := refresh }

/-- one entry of a handler's guard list -/
inductive Guard
  /-- `decorators.login_required(html, admin, permission)` -/
  | loginRequired (html admin : Bool) (perm : Option Perm)
  /-- `flask_jwt_extended.jwt_required(refresh=…, optional=…)` -/
  | jwtRequired (refresh optional : Bool)
  /-- `decorators.jwt_login_required(admin, permission)` -/
  | jwtLoginRequired (admin : Bool) (perm : Option Perm)
  /-- `decorators.csrf_token_required(service, next_url, optional)` -/
  | csrfDecorator (service : String) (hasNext optional : Bool)
  /-- `self.check_csrf(service, …)` / `CsrfProtection.check(service, …)` inside the body,
  before the first statement that touches persistent state -/
  | csrfBody (service : String)
  /-- `uses_stream`, `uses_media_file`, `uses_keypair`, `uses_multi_period_stream`,
  `uses_manifest`, `modifies_user_model` -/
  | loader (what : String)
  /-- `if not <ident>.is_admin and user.pk != <ident>.pk: return …` (user_management.py:203-205);
  `jwt` says which identity is consulted -/
  | selfOrAdmin (jwt : Bool)
  /-- `decorators.spa_handler`: non-ajax requests get the static single-page app -/
  | spa
  /-- a decorator the translator does not know: transparent (the conservative choice
  for "every lesser caller is stopped") -/
  | other (name : String)
  deriving DecidableEq, Repr

/-- the guard consults the session identity -/
def Guard.usesSession : Guard → Bool
  | .loginRequired .. => true
  | .selfOrAdmin jwt => !jwt
  | _ => false

/-- the guard consults the bearer token -/
def Guard.usesToken : Guard → Bool
  | .jwtRequired .. => true
  | .jwtLoginRequired .. => true
  | .selfOrAdmin jwt => jwt
  | _ => false

/-- what a guard does with a request -/
inductive Verdict
  /-- the wrapped function is called -/
  | pass
  /-- the guard answers itself with this HTTP status (0: status not modelled); the
  wrapped function is **not** called -/
  | stop (status : Nat)
  /-- in-body check failed: the body has been entered but returns before it touches
  persistent state -/
  | block
  deriving DecidableEq, Repr

/-- `decorators.needs_login_response` (decorators.py:34-41) -/
def needsLogin (ajax html : Bool) : Verdict :=
  if ajax then .stop 401 else if html then .stop 200 else .stop 401

def permOk (u : Ident) : Option Perm → Bool
  | none => true
  | some p => u.hasPermission p

/-- failure answer of `csrf_token_required` (decorators.py:100-108) -/
def csrfDecoratorFails (ajax hasNext : Bool) : Verdict :=
  if ajax then .stop 401 else if hasNext then .stop 0 else .stop 401

def guardVerdict : Guard → Request → Verdict
  | .loginRequired html admin perm, r =>
    -- decorators.py:50-55: every test reads flask_login's current_user
    let u := r.session
    if !u.isAuthenticated then needsLogin r.ajax html
    else if admin && !u.isAdmin then needsLogin r.ajax html
    else if !permOk u perm then needsLogin r.ajax html
    else .pass
  | .jwtRequired refresh optional, r =>
    -- flask_jwt_extended.verify_jwt_in_request: a missing token is 401 unless optional;
    -- a token of the wrong type (refresh where access is asked for, or the reverse) is 422
    match r.token with
    | none => if optional then .pass else .stop 401
    | some _ => if r.tokenIsRefresh != refresh then .stop 422 else .pass
  | .jwtLoginRequired admin perm, r =>
    -- decorators.py:67-72: every test reads the owner of the bearer token; without a
    -- verified token `jwt_current_user` cannot be evaluated and the request dies with a 500
    match r.token with
    | none => .stop 500
    | some u =>
      if !u.isAuthenticated then .stop 401
      else if admin && !u.isAdmin then .stop 401
      else if !permOk u perm then .stop 401
      else .pass
  | .csrfDecorator _ hasNext optional, r =>
    -- decorators.py:86-99
    if !r.csrfPresent then (if optional then .pass else csrfDecoratorFails r.ajax hasNext)
    else if r.csrfOk then .pass else csrfDecoratorFails r.ajax hasNext
  | .csrfBody _, r => if r.csrfPresent && r.csrfOk then .pass else .block
  | .loader _, r => if r.targetExists then .pass else .stop 404
  | .selfOrAdmin jwt, r =>
    let u := if jwt then r.token.getD .nobody else r.session
    if u.isAdmin || r.target.same u then .pass else .block
  | .spa, r => if r.ajax then .pass else .stop 0
  | .other _, _ => .pass

/-- guards in the order they run: the first one that does not pass decides -/
def evalChain : List Guard → Request → Verdict
  | [], _ => .pass
  | g :: gs, r =>
    match guardVerdict g r with
    | .pass => evalChain gs r
    | v => v

/-- one row of the generated route table (`Gen/Routes.lean`) -/
structure Row where
  route : String
  url : String
  handler : String
  method : Method
  /-- class.method that serves the verb after MRO resolution -/
  impl : String
  /-- `decorators = [...]` in source order (first = innermost) -/
  classDecorators : List Guard
  /-- decorators of the method, top-down (first = outermost) -/
  methodDecorators : List Guard
  /-- checks inside the body before the first write, in order -/
  bodyGuards : List Guard
  mutates : Bool
  /-- every in-body CSRF check precedes the first statement that touches persistent state -/
  csrfFirst : Bool
  kind : Kind
  /-- the method (or a helper it reaches) calls `Token.prune_database`, the only code that
  deletes CSRF replay records -/
  prunes : Bool := false
  deriving Repr

/-- one call of `prune_database` found in the source tree -/
structure PruneSite where
  /-- file:function -/
  site : String
  /-- value of the `all_csrf` argument -/
  allCsrf : Bool
  /-- the call is in `create_app`, i.e. runs once per server start -/
  startup : Bool
  deriving Repr

/-- execution order: `as_view` wraps the dispatcher with the class decorators in list
order (last = outermost = first to run), then the method's own decorators run top-down,
then the body's checks -/
def Row.chain (row : Row) : List Guard :=
  row.classDecorators.reverse ++ row.methodDecorators ++ row.bodyGuards

/-! ## Flask's composition, modelled literally (for `guard_chain_sound`) -/

/-- observable outcome of a view call -/
inductive Outcome (α : Type)
  | stopped (status : Nat)
  | blocked
  /-- the state-changing part of the body ran and produced `a` -/
  | ran (a : α)
  deriving DecidableEq, Repr

abbrev View (α : Type) := Request → Outcome α

/-- what every guard in this code base does: either answer itself or call the wrapped function -/
def wrap {α : Type} (g : Guard) (v : View α) : View α := fun r =>
  match guardVerdict g r with
  | .pass => v r
  | .stop s => .stopped s
  | .block => .blocked

/-- `View.as_view`: `for decorator in cls.decorators: view = decorator(view)` -/
def asView {α : Type} (classDecorators : List Guard) (dispatch : View α) : View α :=
  classDecorators.foldl (fun v d => wrap d v) dispatch

/-- `@a @b def f` is `a(b(f))` -/
def decorate {α : Type} (methodDecorators : List Guard) (body : View α) : View α :=
  methodDecorators.foldr wrap body

/-- the view function Flask registers for a row whose state-changing part is `body` -/
def Row.view {α : Type} (row : Row) (body : View α) : View α :=
  asView row.classDecorators (decorate row.methodDecorators (decorate row.bodyGuards body))

/-! ## Who may change what (docs/users.md) -/

/-- identities the caller has proved to hold: the session's and the token owner's -/
def Request.holds (r : Request) (u : Ident) : Bool :=
  r.session.same u || (match r.token with | some t => t.same u | none => false)

def Ident.atLeastMedia : Ident → Bool
  | .media | .admin => true
  | _ => false

/-- some identity the caller holds is in the media group (or admin) -/
def Request.holdsMedia (r : Request) : Bool :=
  r.session.atLeastMedia || (match r.token with | some t => t.atLeastMedia | none => false)

/-- some identity the caller holds is an admin -/
def Request.holdsAdmin (r : Request) : Bool :=
  r.session.isAdmin || (match r.token with | some t => t.isAdmin | none => false)

/-- an account that can be somebody's *own* account (the guest row is nobody's) -/
def Ident.isAccount : Ident → Bool
  | .user | .media | .admin => true
  | _ => false

/-- the documentation lets the caller of `r` change state of this kind – judged by the union
of the identities it holds: media group for streams/media/keys/multi-period streams, admin
for other users, the user themself for their own account; nobody where no role is documented -/
def mayChange : Kind → Request → Bool
  | .none, _ => false
  | .media, r => r.holdsMedia
  | .admin, r => r.holdsAdmin
  | .self, r => r.holdsAdmin || (r.target.isAccount && r.holds r.target)

def Verdict.isPass : Verdict → Bool
  | .pass => true
  | _ => false

def bools : List Bool := [false, true]
def idents : List Ident := [.nobody, .guest, .user, .media, .admin]
def tokens : List (Option Ident) := none :: idents.map some

/-- the request with the credentials and target of `r` and the most permissive value of every
other component: ajax, the target exists, a valid CSRF token is present.  Every guard that
passes on `r` passes on `r.permissive` (`guard_pass_mono`), so "nobody unauthorised passes" need
only be checked on permissive requests, i.e. over the credential vectors. -/
def credRequest (s : Ident) (t : Option Ident) (rf : Bool) (e : Ident) : Request :=
  { session := s, token := t, tokenIsRefresh := rf, ajax := true, targetExists := true, target := e,
    csrfPresent := true, csrfOk := true }

def Request.permissive (r : Request) : Request :=
  credRequest r.session r.token r.tokenIsRefresh r.target

/-- `p` holds for every credential vector: session identity × bearer token owner × token type ×
target account (nested enumeration, no list is materialised) -/
def forallCreds (p : Request → Bool) : Bool :=
  idents.all fun s => tokens.all fun t => bools.all fun rf => idents.all fun e =>
    p (credRequest s t rf e)

def existsCred (p : Request → Bool) : Bool :=
  idents.any fun s => tokens.any fun t => bools.any fun rf => idents.any fun e =>
    p (credRequest s t rf e)

/-- the finite obligation checked per row: every caller the documentation does not allow is
stopped or blocked – whatever combination of session and token it presents -/
def rowGuarded (row : Row) : Bool :=
  !row.mutates || forallCreds fun r => mayChange row.kind r || !(evalChain row.chain r).isPass

/-- non-vacuity per row: some documented caller gets through -/
def rowAdmits (row : Row) : Bool :=
  !row.mutates || existsCred fun r => mayChange row.kind r && (evalChain row.chain r).isPass

/-- a "JWT-protected" row: its chain asks `jwt_login_required` -/
def Row.jwtProtected (row : Row) : Bool :=
  row.chain.any fun g => match g with | .jwtLoginRequired .. => true | _ => false

end DashLive.Auth
