/-!
# Model of dash-live's authorisation guards (property C15)

Anchors: `dashlive/server/requesthandler/decorators.py:43-112` (`login_required`,
`jwt_login_required`, `csrf_token_required`), the `uses_*` loaders (`:114-300`),
`spa_handler` (`:302-314`), `dashlive/server/models/user.py:97-160`
(`is_authenticated`, `is_admin`, `has_permission`), `server/anonymous_user.py`,
`flask.views.View.as_view` (class `decorators` are applied in list order, so the
last one is outermost) and Python's decorator syntax (top one is outermost).

A *role* is what the caller has logged in as; the three named roles are the group
memberships docs/users.md describes and the harness users carry:
`user` = {USER}, `media` = {USER, MEDIA}, `admin` = {ADMIN}.

What is **not** modelled (trusted): how flask_login / Flask-JWT-Extended turn a
session cookie / bearer token into `current_user` / `jwt_current_user`.  The model
starts from "the server has identified the caller as …".
-/
namespace DashLive.Auth

/-- what the caller is logged in as -/
inductive Role | anonymous | user | media | admin
  deriving DecidableEq, Repr, Inhabited

def Role.rank : Role → Nat
  | .anonymous => 0 | .user => 1 | .media => 2 | .admin => 3

/-- `dashlive.server.models.group.Group` -/
inductive Perm | user | media | admin
  deriving DecidableEq, Repr

inductive Method | GET | HEAD | POST | PUT | DELETE | PATCH
  deriving DecidableEq, Repr

/-- role docs/users.md assigns to the state a route changes (hand-written map in
`harness/gen_routes.py`); `none`: no role is documented as allowed to change state there -/
inductive Kind | none | media | admin | self
  deriving DecidableEq, Repr

/-- the identity the server computes for a request: flask_login's `current_user`
(`nobody` = `AnonymousUser`) or Flask-JWT-Extended's `current_user`; `guest` is the
`_AnonymousUser_` row for which `GET /api/refresh/access` issues access tokens to
visitors that have not logged in (`user_management.py:270-283`) -/
inductive Ident | nobody | guest | user | media | admin
  deriving DecidableEq, Repr

/-- `User.is_authenticated` (user.py:97-101: false for the guest account),
`AnonymousUserMixin.is_authenticated` = False -/
def Ident.isAuthenticated : Ident → Bool
  | .nobody => false | .guest => false | _ => true

/-- `User.is_admin` (user.py:137-142) -/
def Ident.isAdmin : Ident → Bool
  | .admin => true | _ => false

/-- `User.has_permission` (user.py:150-158): member of the group, or admin;
`AnonymousUser.has_permission` = False; the guest account has `groups_mask = 0` -/
def Ident.hasPermission : Ident → Perm → Bool
  | .admin, _ => true
  | .media, .user => true
  | .media, .media => true
  | .user, .user => true
  | _, _ => false

def Role.ident : Role → Ident
  | .anonymous => .nobody | .user => .user | .media => .media | .admin => .admin

/-- The parts of a request the guards look at.  All Booleans, so the space is finite. -/
structure Request where
  /-- the caller presents the session cookie of its login (anonymous has none) -/
  sendsSession : Bool
  /-- the caller presents a bearer token of the kind the guard asks for (access token;
  refresh token where `refresh=True`).  Anonymous callers own one token: the guest
  *access* token from `GET /api/refresh/access`. -/
  sendsJwt : Bool
  /-- `utils.is_ajax()`: JSON body or `ajax=1` -/
  ajax : Bool
  /-- the object named in the URL exists (what the `uses_*` loaders test) -/
  targetExists : Bool
  /-- the user row named in the URL is the caller's own (`EditUser.post`) -/
  targetIsSelf : Bool
  /-- a `csrf_token` parameter is present -/
  csrfPresent : Bool
  /-- `CsrfProtection.check(service, token)` succeeds for the service the guard names
  (the conservative reading for the role theorems: a lesser role may hold a valid token
  for every service) -/
  csrfOk : Bool
  deriving DecidableEq, Repr

def sessionIdent (ρ : Role) (r : Request) : Ident :=
  if r.sendsSession then ρ.ident else .nobody

/-- identity behind the bearer token, `none` when no token is sent -/
def jwtIdent (ρ : Role) (r : Request) : Option Ident :=
  if r.sendsJwt then
    some (match ρ with | .anonymous => .guest | .user => .user | .media => .media | .admin => .admin)
  else none

/-- one entry of a handler's guard list -/
inductive Guard
  /-- `decorators.login_required(html, admin, permission)` -/
  | loginRequired (html admin : Bool) (perm : Option Perm)
  /-- `flask_jwt_extended.jwt_required(refresh=…, optional=…)` -/
  | jwtRequired (refresh optional : Bool)
  /-- `decorators.jwt_login_required(admin, permission)` -/
  | jwtLoginRequired (admin : Bool) (perm : Option Perm)
  /-- `decorators.csrf_token_required(service, next_url, optional)` -/
  | csrfDecorator (service : String) (hasNext optional : Bool)
  /-- `self.check_csrf(service, …)` / `CsrfProtection.check(service, …)` inside the body,
  before the first statement that touches persistent state -/
  | csrfBody (service : String)
  /-- `uses_stream`, `uses_media_file`, `uses_keypair`, `uses_multi_period_stream`,
  `uses_manifest`, `modifies_user_model` -/
  | loader (what : String)
  /-- `if not <ident>.is_admin and user.pk != <ident>.pk: return …` (user_management.py:203-205);
  `jwt` says which identity is consulted -/
  | selfOrAdmin (jwt : Bool)
  /-- `decorators.spa_handler`: non-ajax requests get the static single-page app -/
  | spa
  /-- a decorator the translator does not know: transparent (the conservative choice
  for "every lesser role is stopped") -/
  | other (name : String)
  deriving DecidableEq, Repr

/-- what a guard does with a request -/
inductive Verdict
  /-- the wrapped function is called -/
  | pass
  /-- the guard answers itself with this HTTP status (0: status not modelled); the
  wrapped function is **not** called -/
  | stop (status : Nat)
  /-- in-body check failed: the body has been entered but returns before it touches
  persistent state -/
  | block
  deriving DecidableEq, Repr

/-- `decorators.needs_login_response` (decorators.py:34-41) -/
def needsLogin (ajax html : Bool) : Verdict :=
  if ajax then .stop 401 else if html then .stop 200 else .stop 401

def permOk (u : Ident) : Option Perm → Bool
  | none => true
  | some p => u.hasPermission p

/-- failure answer of `csrf_token_required` (decorators.py:100-108) -/
def csrfDecoratorFails (ajax hasNext : Bool) : Verdict :=
  if ajax then .stop 401 else if hasNext then .stop 0 else .stop 401

def guardVerdict : Guard → Role → Request → Verdict
  | .loginRequired html admin perm, ρ, r =>
    -- decorators.py:50-55
    let u := sessionIdent ρ r
    if !u.isAuthenticated then needsLogin r.ajax html
    else if admin && !u.isAdmin then needsLogin r.ajax html
    else if !permOk u perm then needsLogin r.ajax html
    else .pass
  | .jwtRequired refresh optional, ρ, r =>
    -- flask_jwt_extended.verify_jwt_in_request: a missing token is 401 unless optional;
    -- the guest access token is the wrong type where a refresh token is asked for (422)
    if !r.sendsJwt then (if optional then .pass else .stop 401)
    else if refresh && ρ == .anonymous then .stop 422
    else .pass
  | .jwtLoginRequired admin perm, ρ, r =>
    -- decorators.py:67-72; without a verified token `jwt_current_user` cannot be
    -- evaluated and the request dies with a 500
    match jwtIdent ρ r with
    | none => .stop 500
    | some u =>
      if !u.isAuthenticated then .stop 401
      else if admin && !u.isAdmin then .stop 401
      else if !permOk u perm then .stop 401
      else .pass
  | .csrfDecorator _ hasNext optional, _, r =>
    -- decorators.py:86-99
    if !r.csrfPresent then (if optional then .pass else csrfDecoratorFails r.ajax hasNext)
    else if r.csrfOk then .pass else csrfDecoratorFails r.ajax hasNext
  | .csrfBody _, _, r => if r.csrfPresent && r.csrfOk then .pass else .block
  | .loader _, _, r => if r.targetExists then .pass else .stop 404
  | .selfOrAdmin jwt, ρ, r =>
    let u := if jwt then (jwtIdent ρ r).getD .nobody else sessionIdent ρ r
    if u.isAdmin || r.targetIsSelf then .pass else .block
  | .spa, _, r => if r.ajax then .pass else .stop 0
  | .other _, _, _ => .pass

/-- guards in the order they run: the first one that does not pass decides -/
def evalChain : List Guard → Role → Request → Verdict
  | [], _, _ => .pass
  | g :: gs, ρ, r =>
    match guardVerdict g ρ r with
    | .pass => evalChain gs ρ r
    | v => v

/-- one row of the generated route table (`Gen/Routes.lean`) -/
structure Row where
  route : String
  url : String
  handler : String
  method : Method
  /-- class.method that serves the verb after MRO resolution -/
  impl : String
  /-- `decorators = [...]` in source order (first = innermost) -/
  classDecorators : List Guard
  /-- decorators of the method, top-down (first = outermost) -/
  methodDecorators : List Guard
  /-- checks inside the body before the first write, in order -/
  bodyGuards : List Guard
  mutates : Bool
  /-- every in-body CSRF check precedes the first statement that touches persistent state -/
  csrfFirst : Bool
  kind : Kind
  deriving Repr

/-- execution order: `as_view` wraps the dispatcher with the class decorators in list
order (last = outermost = first to run), then the method's own decorators run top-down,
then the body's checks -/
def Row.chain (row : Row) : List Guard :=
  row.classDecorators.reverse ++ row.methodDecorators ++ row.bodyGuards

/-! ## Flask's composition, modelled literally (for `guard_chain_sound`) -/

/-- observable outcome of a view call -/
inductive Outcome (α : Type)
  | stopped (status : Nat)
  | blocked
  /-- the state-changing part of the body ran and produced `a` -/
  | ran (a : α)
  deriving DecidableEq, Repr

abbrev View (α : Type) := Role → Request → Outcome α

/-- what every guard in this code base does: either answer itself or call the wrapped function -/
def wrap {α : Type} (g : Guard) (v : View α) : View α := fun ρ r =>
  match guardVerdict g ρ r with
  | .pass => v ρ r
  | .stop s => .stopped s
  | .block => .blocked

/-- `View.as_view`: `for decorator in cls.decorators: view = decorator(view)` -/
def asView {α : Type} (classDecorators : List Guard) (dispatch : View α) : View α :=
  classDecorators.foldl (fun v d => wrap d v) dispatch

/-- `@a @b def f` is `a(b(f))` -/
def decorate {α : Type} (methodDecorators : List Guard) (body : View α) : View α :=
  methodDecorators.foldr wrap body

/-- the view function Flask registers for a row whose state-changing part is `body` -/
def Row.view {α : Type} (row : Row) (body : View α) : View α :=
  asView row.classDecorators (decorate row.methodDecorators (decorate row.bodyGuards body))

/-! ## Documented role -/

/-- least role allowed to change state of this kind (`none`: nobody) -/
def required : Kind → Request → Option Role
  | .none, _ => none
  | .media, _ => some .media
  | .admin, _ => some .admin
  | .self, r => some (if r.targetIsSelf then .user else .admin)

/-- `ρ` is below the documented role -/
def lesser (ρ : Role) : Option Role → Bool
  | none => true
  | some need => ρ.rank < need.rank

def allRoles : List Role := [.anonymous, .user, .media, .admin]

def bools : List Bool := [false, true]

def allRequests : List Request :=
  bools.flatMap fun a => bools.flatMap fun b => bools.flatMap fun c => bools.flatMap fun d =>
  bools.flatMap fun e => bools.flatMap fun f => bools.map fun g =>
    { sendsSession := a, sendsJwt := b, ajax := c, targetExists := d, targetIsSelf := e,
      csrfPresent := f, csrfOk := g }

/-- the finite obligation checked per row: every lesser role is stopped or blocked on every request -/
def rowGuarded (row : Row) : Bool :=
  !row.mutates || allRoles.all fun ρ => allRequests.all fun r =>
    !lesser ρ (required row.kind r) || evalChain row.chain ρ r != .pass

/-- non-vacuity per row: the documented role itself gets through on some request -/
def rowAdmits (row : Row) : Bool :=
  !row.mutates || allRequests.any fun r =>
    match required row.kind r with
    | some need => evalChain row.chain need r == .pass
    | none => false

end DashLive.Auth
