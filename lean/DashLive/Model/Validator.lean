/-
Model of the *decision logic* of the bundled DASH validator
(`dashlive/mpeg/dash/validator/`), as it is in the tree after the `fix:` commits
3c714d3 + the follow-up (mandatory moov boxes, codec guard), 0554b9e (MPD@profiles/@minBufferTime, Period@id),
1951de2 (missing @media/S@d/@availabilityStartTime/@timeShiftBufferDepth are
errors, template errors reachable), c08f3f9 (no minimumUpdatePeriod), b7314e3 (init segment
without a sample entry) and a2de2ac (samples that need a missing trex).

Every function is a pure predicate over *parsed* data: what the validator read
from an HTTP response (`SegObs`, `InitObs`, `Doc`, `Refresh`) and what it
expected (`SegExp`).  The asyncio/thread-pool plumbing, progress reporting,
saving of files and the element classes outside the path of C18's catalogue are
not modelled.  Import-free (core Lean only).

The result of every check is the list of errors in the order the Python code
appends them (`ValidationChecks.add_error`, errors.py:155-159).
-/
namespace DashLive.Validator

/-! ## `ValidationChecks` comparisons (errors.py:161-241) -/

/-- `check_almost_equal(a, b, delta=d)`: `abs(a - b) <= d` (errors.py:226-235) -/
def almostEqual (a b : Int) (delta : Nat) : Bool := (a - b).natAbs ≤ delta

/-! ## MediaSegment (media_segment.py) -/

/-- the errors a `MediaSegment` can carry, named after the check that produces them -/
inductive SegErr
  /-- media_segment.py:122-131 `Missing segment` / `Incorrect HTTP status code for RANGE GET` -/
  | status
  /-- :132-135 Content-Type does not start with the Representation's MIME type -/
  | contentType
  /-- :246-255 encryption of the fragment ≠ `options.encrypted` -/
  | encryption
  /-- :256-260 `IV size is unknown` -/
  | ivSize
  /-- :262 fewer than two top level boxes -/
  | atomCount
  /-- :263-267 `MOOF box missing from media segment` -/
  | moofMissing
  /-- :268-272 `MDAT box missing from media segment` -/
  | mdatMissing
  /-- :273-276 + check_emsg_box :296-314 no matching InbandEventStream -/
  | emsg
  /-- :290-291 `first_sample_pos == mdat.position + mdat.header_size` -/
  | trunFirst
  /-- :292-293 `last_sample_end <= mdat.position + mdat.size` -/
  | trunLast
  /-- :142-144 `Failed to find MOOF box` (parse_data returned None) -/
  | noMoof
  /-- :317-322 `An encrypted stream must contain a senc box` -/
  | sencMissing
  /-- :323-325 `saio box is required for an encrypted stream` -/
  | saioMissing
  /-- :326-328 `saio box should only have one offset entry` -/
  | saioCount
  /-- :334-341 saio offset + base ≠ position of the first senc sample -/
  | saioOffset
  /-- :342 `len(trun.samples) == len(senc.samples)` -/
  | sencCount
  /-- :151-153 `senc box should not be found in a clear stream`.  Never produced: the test
  `'senc' not in moof.traf` asks `ObjectWithFields.__contains__`, i.e. whether the traf object
  has a *field* called `senc` (dashlive/utils/object_with_fields.py:189-190), not whether it has
  such a child box – it always holds. -/
  | sencInClear
  /-- :159-162 `Sequence number error` -/
  | seqNum
  /-- :163-174 decode time outside `tolerance` -/
  | decodeTime
  /-- :175-178 `Failed to get MOOV box from init segment` -/
  | moovMissing
  /-- `Sample duration is missing and the init segment has no trex box` (:179-190, fix a2de2ac) -/
  | trexMissing
  /-- :199 `pts >= 0` -/
  | ptsNegative
  /-- :200 pts seen twice -/
  | ptsDuplicate
  /-- :215-220 a timescale is zero -/
  | zeroTimescale
  /-- :223-228 duration outside one second (`delta = dash_timescale`) -/
  | duration
  /-- representation.py:533-550 `Based upon segment number … the expected decode_time` -/
  | chain
  deriving DecidableEq, Repr

structure Sample where
  size : Nat
  /-- `sample.duration` resolved with the tfhd / trex defaults (media_segment.py:201-205) -/
  dur : Nat
  /-- `composition_time_offset` (0 when the trun carries none, :193-197) -/
  cto : Int
  deriving DecidableEq, Repr

/-- what the validator read from the response to a media-segment request -/
structure SegObs where
  status : Nat
  /-- Content-Type header starts with the Representation's mimeType (true when that is None) -/
  ctypeOk : Bool
  /-- number of top-level boxes -/
  nAtoms : Nat
  hasMoof : Bool
  hasMdat : Bool
  /-- no emsg box, or an InbandEventStream with its scheme/value exists -/
  emsgOk : Bool
  /-- `moof.mfhd.sequence_number` -/
  seq : Nat
  /-- `moof.traf.tfdt.base_media_decode_time` -/
  tfdt : Nat
  /-- `moof.traf.tfhd.base_data_offset` (position of the moof when default-base-is-moof) -/
  baseDataOffset : Int
  /-- `moof.traf.trun.data_offset` -/
  dataOffset : Int
  samples : List Sample
  mdatPos : Nat
  mdatHdr : Nat
  mdatSize : Nat
  /-- senc box: (position, offset of the first sample entry inside the box, number of samples) -/
  senc : Option (Nat × Nat × Nat)
  /-- saio box: its offsets -/
  saio : Option (List Nat)
  /-- some sample has neither its own duration nor a tfhd default (it needs `trex`) -/
  needsTrex : Bool := false
  deriving Repr

/-- what the Representation / options contribute to the checks of its segments -/
structure RepCtx where
  /-- the parent AdaptationSet has contentType `video` -/
  video : Bool
  /-- `options.encrypted` -/
  optEncrypted : Bool
  /-- `init_segment.dash_representation.encrypted` -/
  infoEncrypted : Bool
  /-- `info.iv_size is not None` -/
  ivKnown : Bool
  /-- the init segment has a moov box (`get_moov()` is not None) -/
  hasMoov : Bool
  /-- that moov has `mvex/trex` (a default sample duration is available) -/
  hasTrex : Bool := true
  /-- `Representation.dash_timescale()` -/
  dashTs : Nat
  /-- `init_segment.media_timescale()`; `none` when the init segment was not parsed -/
  mediaTs : Option Nat
  /-- `SegmentTemplate@startNumber` (1 when absent, segment_template.py:12-13) -/
  startNumber : Int
  /-- `SegmentTemplate@duration` -/
  tmplDuration : Option Nat
  /-- the segment is requested with a Range header (on-demand profile) -/
  ranged : Bool := false
  deriving Repr

/-- what the validator expects of one media segment (`MediaSegment.__init__`) -/
structure SegExp where
  expSeq : Option Int
  expDecode : Option Int
  expDur : Option Nat
  /-- `tolerance` (decode-time ticks) -/
  tol : Nat
  /-- `presentation_time_offset` in timescale units -/
  pto : Int
  deriving DecidableEq, Repr

def sumSizes (l : List Sample) : Nat := (l.map (·.size)).sum
def sumDurs (l : List Sample) : Nat := (l.map (·.dur)).sum

/-- `MediaSegment.parse_data` (media_segment.py:243-294): errors, and whether a moof is returned -/
def parseData (c : RepCtx) (o : SegObs) : List SegErr × Bool :=
  let e1 : List SegErr :=
    if c.video then (if c.optEncrypted = c.infoEncrypted then [] else [.encryption])
    else if c.infoEncrypted ∧ ¬ c.optEncrypted then [.encryption] else []
  if c.infoEncrypted ∧ ¬ c.ivKnown then (e1 ++ [.ivSize], false) else
  let e2 := e1 ++ (if 1 < o.nAtoms then [] else [.atomCount])
  if ¬ o.hasMoof then (e2 ++ [.moofMissing], false) else
  if ¬ o.hasMdat then (e2 ++ [.mdatMissing], false) else
  let e3 := e2 ++ (if o.emsgOk then [] else [.emsg])
  let first : Int := o.baseDataOffset + o.dataOffset
  let last : Int := first + (sumSizes o.samples : Int)
  let e4 := e3 ++ (if first = ((o.mdatPos + o.mdatHdr : Nat) : Int) then [] else [.trunFirst])
  let e5 := e4 ++ (if last ≤ ((o.mdatPos + o.mdatSize : Nat) : Int) then [] else [.trunLast])
  (e5, true)

/-- `MediaSegment.check_saio_offset` (media_segment.py:316-342).  A missing saio box makes the
Python raise after the error is recorded; the model stops there. -/
def checkSaio (o : SegObs) : List SegErr :=
  match o.senc with
  | none => [.sencMissing]
  | some (sencPos, firstOff, sencCount) =>
    match o.saio with
    | none => [.saioMissing]
    | some offs =>
      (if offs.length = 1 then [] else [.saioCount]) ++
      (if ((sencPos + firstOff : Nat) : Int) = (offs.headD 0 : Int) + o.baseDataOffset then []
        else [.saioOffset]) ++
      (if o.samples.length = sencCount then [] else [.sencCount])

/-- the sample loop of validate_segment (media_segment.py:191-207): one `ptsNegative` /
`ptsDuplicate` per offending sample, in sample order -/
def ptsLoop (pto : Int) : Int → List Int → List Sample → List SegErr
  | _, _, [] => []
  | dts, seen, s :: rest =>
    let pts := dts + s.cto - pto
    (if 0 ≤ pts then [] else [SegErr.ptsNegative]) ++
    (if pts ∈ seen then [SegErr.ptsDuplicate] else []) ++
    ptsLoop pto (dts + s.dur) (pts :: seen) rest

/-- `self.duration` after the timescale conversion (media_segment.py:208-221) -/
def obsDuration (c : RepCtx) (o : SegObs) : Nat :=
  let d := sumDurs o.samples
  match c.mediaTs with
  | none => d
  | some m => if m ≠ c.dashTs ∧ m ≠ 0 then d * c.dashTs / m else d

/-- the status the request must answer with (media_segment.py:122-131) -/
def wantStatus (c : RepCtx) : Nat := if c.ranged then 206 else 200

def ctypeErrs (o : SegObs) : List SegErr := if o.ctypeOk then [] else [.contentType]

/-- :147-153; the `else` branch (`check_not_in('senc', moof.traf)`) can never fail, see
`SegErr.sencInClear` -/
def encErrs (c : RepCtx) (o : SegObs) : List SegErr :=
  if c.infoEncrypted then checkSaio o else []

/-- :159-162 -/
def seqErrs (e : SegExp) (o : SegObs) : List SegErr :=
  match e.expSeq with
  | some n => if n = (o.seq : Int) then [] else [.seqNum]
  | none => []

/-- :163-174 -/
def decodeErrs (e : SegExp) (o : SegObs) : List SegErr :=
  match e.expDecode with
  | some t => if almostEqual t o.tfdt e.tol then [] else [.decodeTime]
  | none => []

/-- :223-228 -/
def durErrs (c : RepCtx) (e : SegExp) (o : SegObs) : List SegErr :=
  match e.expDur with
  | some d => if almostEqual d (obsDuration c o) c.dashTs then [] else [.duration]
  | none => []

/-- everything after the decode-time check (:175-228) -/
def segTail (c : RepCtx) (e : SegExp) (o : SegObs) : List SegErr :=
  if ¬ c.hasMoov then [.moovMissing] else
  if o.needsTrex ∧ ¬ c.hasTrex then [.trexMissing] else
  ptsLoop e.pto o.tfdt [] o.samples ++
    (if c.mediaTs = some 0 ∨ c.dashTs = 0 then [.zeroTimescale] else durErrs c e o)

/-- `MediaSegment.validate_segment` from the HTTP response on (media_segment.py:117-230) -/
def validateSegment (c : RepCtx) (e : SegExp) (o : SegObs) : List SegErr :=
  if o.status ≠ wantStatus c then [.status] else
  if ¬ (parseData c o).2 then ctypeErrs o ++ (parseData c o).1 ++ [.noMoof] else
  ctypeErrs o ++ (parseData c o).1 ++ encErrs c o ++ seqErrs e o ++ decodeErrs e o ++ segTail c e o

/-- has the segment produced the values the Representation loop reads afterwards
(`seg_num`, `decode_time`, `next_decode_time`, `duration`)?  `seg_num`/`decode_time` are set
once a moof was parsed (:145-146), `duration`/`next_decode_time` after the sample loop (:208-209). -/
structure SegRes where
  seq : Option Nat
  duration : Option Nat
  nextDecode : Option Int
  deriving DecidableEq, Repr

def SegRes.none : SegRes := { seq := Option.none, duration := Option.none, nextDecode := Option.none }

def segResult (c : RepCtx) (o : SegObs) : SegRes :=
  if o.status ≠ wantStatus c then .none else
  if ¬ (parseData c o).2 then .none else
  if ¬ c.hasMoov then { seq := some o.seq, duration := Option.none, nextDecode := Option.none } else
  if o.needsTrex ∧ ¬ c.hasTrex then { seq := some o.seq, duration := Option.none, nextDecode := Option.none } else
  -- duration is assigned before the zero-timescale return (:208-209)
  { seq := some o.seq,
    duration := some (if c.mediaTs = some 0 ∨ c.dashTs = 0 then sumDurs o.samples else obsDuration c o),
    nextDecode := some ((o.tfdt : Int) + (sumDurs o.samples : Int)) }

/-! ## segment availability (media_segment.py:71-111)

`set_segment_availability` gives every MediaSegment of a live Representation the wall-clock
interval in which it may be requested; `validate_segment` consults it before anything is
fetched: a segment whose interval has not begun is left for a later pass, a segment whose
interval ends less than two seconds from now is marked validated WITHOUT being fetched or
checked.  All instants are microseconds. -/

/-- `timecode_to_timedelta` (utils/date_time.py:264-269): `timecode * 10^6 // timescale` -/
def tcToUs (tc : Int) (ts : Nat) : Int := tc * 1000000 / (ts : Int)

structure Avail where
  start : Int
  stop : Int
  deriving DecidableEq, Repr

/-- the safety margin of `validate_segment` (:107): two seconds -/
def availMarginUs : Int := 2000000

/-- media_segment.py:71-88.  `segDur` is the `seg_duration` of the caller
(SegmentTemplate@duration, or the mean of the timeline), `periodAstUs` =
`Period.availability_start_time()`, `tsbdUs` = MPD@timeShiftBufferDepth.
start = the instant the segment is complete; stop = start + depth + ONE MORE segment duration -/
def segmentAvailability (periodAstUs tsbdUs : Int) (ts : Nat) (pto startNumber segDur : Int)
    (e : SegExp) : Avail :=
  let decode : Int := match e.expDecode with
    | some d => d
    | none => (e.expSeq.getD 0 - startNumber) * segDur
  let start := periodAstUs + tcToUs (decode + segDur - pto) ts
  { start := start, stop := start + tsbdUs + tcToUs segDur ts }

/-- what `validate_segment` does with a segment before any request (:94-111) -/
inductive Fetch
  | notYet
  | expired
  | fetch
  deriving DecidableEq, Repr

def availDecision (nowUs : Int) : Option Avail → Fetch
  | none => .fetch
  | some a =>
    if a.start > nowUs then .notYet
    else if a.stop < nowUs + availMarginUs then .expired
    else .fetch

/-! ## `Representation.validate` – the loop over media segments (representation.py:514-566) -/

/-- what happens when `seg.validate()` is called on a segment not validated before
(media_segment.py:94-111): not yet available (returns, still unvalidated), no longer
available (validated, nothing fetched), or fetched -/
inductive Outcome
  | notYet
  | expired
  | fetched (o : SegObs)
  deriving Repr

/-- a `MediaSegment` object between passes -/
structure SegState where
  exp : SegExp
  validated : Bool
  res : SegRes
  deriving DecidableEq, Repr

structure Chain where
  nextDecode : Option Int
  nextSeq : Option Int
  totalDur : Nat
  deriving DecidableEq, Repr

def Chain.init : Chain := { nextDecode := none, nextSeq := none, totalDur := 0 }

/-- lines 529-550: the expectations a segment inherits from its predecessor, and the
`chain` check (`expected_time` vs `next_decode_time`, delta = half the expected duration) -/
def inherit (c : RepCtx) (ch : Chain) (e : SegExp) : SegExp × Option Int × List SegErr :=
  -- 529-532
  let (expSeq, nd) : Option Int × Option Int :=
    if e.expSeq.isNone ∧ ch.nextSeq.isSome then (ch.nextSeq, ch.nextDecode)
    else if e.expSeq ≠ ch.nextSeq then (e.expSeq, none)
    else (e.expSeq, ch.nextDecode)
  -- 533-550
  match e.expDecode, nd with
  | none, some next =>
    let mts : Nat := c.mediaTs.getD 0
    let segIndex : Int := expSeq.getD 0 - c.startNumber
    let expectedTime : Int := segIndex * (c.tmplDuration.getD 0 : Int) * (mts : Int) / (c.dashTs : Int)
    let delta : Nat := match e.expDur with
      | some d => d / 2
      | none => mts
    ({ e with expSeq := expSeq, expDecode := some next }, nd,
      if almostEqual expectedTime next delta then [] else [SegErr.chain])
  | _, _ => ({ e with expSeq := expSeq }, nd, [])

/-- one iteration of the loop for segment `s` with outcome `oc` (used only when the
segment has not been validated before) -/
def stepSeg (c : RepCtx) (ch : Chain) (s : SegState) (oc : Outcome) : SegState × List SegErr × Chain :=
  let (e', _, errs0) := inherit c ch s.exp
  let (s', errs1) : SegState × List SegErr :=
    if s.validated then ({ s with exp := e' }, [])
    else match oc with
      | .notYet => ({ s with exp := e' }, [])
      | .expired => ({ exp := e', validated := true, res := s.res }, [])
      | .fetched o => ({ exp := e', validated := true, res := segResult c o }, validateSegment c e' o)
  let ch' : Chain :=
    { nextDecode := s'.res.nextDecode,
      nextSeq := s'.res.seq.map fun n => (n : Int) + 1,
      totalDur := ch.totalDur + s'.res.duration.getD 0 }
  (s', errs0 ++ errs1, ch')

/-- the whole loop; `need` is `need_duration` (:517-520, break at :562-566).  Returns the
segments after the pass and the errors each one gained. -/
def repLoop (c : RepCtx) (need : Option Nat) : Chain → List (SegState × Outcome) → List (SegState × List SegErr)
  | _, [] => []
  | ch, (s, oc) :: rest =>
    let (s', errs, ch') := stepSeg c ch s oc
    let stop : Bool := match need with
      | some n => decide (n ≤ ch'.totalDur)
      | none => false
    (s', errs) :: (if stop then rest.map fun p => (p.1, []) else repLoop c need ch' rest)

def repPass (c : RepCtx) (need : Option Nat) (l : List (SegState × Outcome)) : List (SegState × List SegErr) :=
  repLoop c need Chain.init l

/-- a fresh segment as `generate_segments_*` creates it -/
def SegState.fresh (e : SegExp) : SegState := { exp := e, validated := false, res := SegRes.none }

/-- index-tagged errors of a pass: `(i, err)` = segment `i` of the Representation gained `err` -/
def located (l : List (SegState × List SegErr)) : List (Nat × SegErr) :=
  (l.zipIdx).flatMap fun p => p.1.2.map fun e => (p.2, e)

/-! ## SegmentTimeline (segment_timeline.py) and segment generation (representation.py:167-341) -/

/-- one `<S>` element as written: `t`, `d`, `r` (`d = none`: attribute missing) -/
structure SElem where
  t : Option Int
  d : Option Int
  r : Int
  deriving DecidableEq, Repr

inductive TlErr
  /-- `S@d is a mandatory attribute` (fix 1951de2) -/
  | missingD
  /-- `start attribute is missing for first entry in SegmentTimeline` -/
  | missingStart
  deriving DecidableEq, Repr

/-- `repeat` copies starting at `start` (segment_timeline.py:50-53) -/
def tlRepeat (start d : Int) : Nat → List (Int × Int)
  | 0 => []
  | n+1 => (start, d) :: tlRepeat (start + d) d n

/-- `SegmentTimeline.__init__` for `r ≥ 0` entries (the server never writes a negative `@r`;
negative values are treated as a single entry here and excluded from the correspondence). -/
def tlExpand : Option Int → List SElem → List (Int × Int) × List TlErr
  | _, [] => ([], [])
  | cur, s :: rest =>
    match s.d with
    | none =>
      let r := tlExpand cur rest
      (r.1, TlErr.missingD :: r.2)
    | some d =>
      let start0 : Option Int := match s.t with
        | some t => some t
        | none => cur
      let (start, errs) : Int × List TlErr := match start0 with
        | some v => (v, [])
        | none => (0, [TlErr.missingStart])
      let n : Nat := (s.r + 1).toNat
      let here := tlRepeat start d n
      let r := tlExpand (some (start + n * d)) rest
      (here ++ r.1, errs ++ r.2)

def timelineSegments (l : List SElem) : List (Int × Int) := (tlExpand none l).1

/-- `self.dash_timescale() // frameRate` for a frame rate `num/den` (representation.py:298-301, 251):
`ts // (num/den) = ⌊ts·den/num⌋` -/
def frameTolerance (ts num den : Nat) : Nat := ts * den / num

/-- `generate_segments_using_segment_timeline` (representation.py:282-341): expected values of
every generated segment and the number used for `$Number$` in the URL.  `needVod` is
`need_duration` for non-live modes (break at :331-335). -/
def genTimeline (live audio numberInMedia : Bool) (pto startNumber : Int) (segDuration : Int)
    (dashTs frNum frDen : Nat) (needVod : Option Int) (entries : List (Int × Int)) :
    List (Int × SegExp) :=
  let tol := if audio then dashTs / 20 else frameTolerance dashTs frNum frDen
  let rec go (idx : Nat) (total : Int) : List (Int × Int) → List (Int × SegExp)
    | [] => []
    | (start, d) :: rest =>
      let decode := start - pto
      let segNum : Int := if live then startNumber + decode / segDuration else (idx : Int) + 1
      let e : SegExp := { expSeq := if numberInMedia then some segNum else none,
                          expDecode := some decode, expDur := some d.toNat, tol := tol, pto := pto }
      let total' := total + d
      let stop : Bool := !live && (match needVod with
        | some n => decide (n ≠ 0) && decide (n < total')
        | none => false)
      (segNum, e) :: (if stop then [] else go (idx + 1) total' rest)
  go 0 0 entries

/-- errors `generate_segments_using_segment_timeline` attaches to the Representation itself -/
inductive RepErr
  /-- `SegmentTimeline has duration {0}, expected {1} based upon timeshiftbufferdepth`
  (representation.py:336-341) -/
  | timelineShort
  deriving DecidableEq, Repr

/-- representation.py:336-341: a live timeline has to cover the time-shift buffer (unless less
than the buffer is going to be validated).  `targetUs` = `target_duration`, `tsbdUs` =
MPD@timeShiftBufferDepth, both in µs; `total_duration ≥ tsbd.total_seconds() · timescale`. -/
def timelineDepthErrs (live : Bool) (targetUs : Option Int) (tsbdUs : Int) (dashTs : Nat)
    (entries : List (Int × Int)) : List RepErr :=
  let whole : Bool := match targetUs with
    | none => true
    | some t => decide (tsbdUs ≤ t)
  if live ∧ whole then
    (if tsbdUs * dashTs ≤ ((entries.map (·.2)).sum) * 1000000 then [] else [.timelineShort])
  else []

/-- tolerances of `generate_segments_using_segment_template` (representation.py:251, 259-264) -/
def templateTolerance (audio : Bool) (ts frNum frDen : Nat) (idx : Nat) : Nat :=
  let t := frameTolerance ts frNum frDen
  if idx = 0 then t * 2 else if audio then t / 2 else t

/-- the `$Number$` window of a live SegmentTemplate (representation.py:197-247), all times in µs,
`segDurUs` = `seg_duration_time`.  Returns `(start_number, num_segments)`; `none` when
`num_segments == 0` (:200-204). -/
def templateWindowLive (ts sd : Nat) (startNumber pto : Int) (tsbdUs nowUs astUs segDurUs : Int) :
    Option (Int × Int) :=
  let num0 : Int := (tsbdUs * ts / 1000000) / sd
  if num0 = 0 then none else
  let firstAvail := nowUs - tsbdUs + segDurUs
  let lastAvail := nowUs - segDurUs
  let lastFragment : Int := startNumber + ((lastAvail - astUs) * ts / 1000000 - pto) / sd
  let start0 : Int := startNumber + ((firstAvail - astUs) * ts / 1000000 - pto) / sd
  let num1 : Int := if start0 ≠ lastFragment - num0 then lastFragment - start0 else num0
  if start0 < startNumber then
    let n := num1 - (startNumber - start0)
    some (startNumber, if n < 1 then 1 else n)
  else some (start0, num1)

/-- expected values of template-generated segments: numbers `first … first+n−1`,
no expected decode time, expected duration `@duration` -/
def genTemplate (audio : Bool) (ts frNum frDen sd : Nat) (pto : Int) (first : Int) (n : Nat) : List SegExp :=
  (List.range n).map fun (i : Nat) =>
    { expSeq := some (first + (i : Int)), expDecode := none, expDur := some sd,
      tol := templateTolerance audio ts frNum frDen i, pto := pto }

/-! ## InitSegment (init_segment.py) -/

inductive InitErr
  /-- `URL of init segment is missing` -/
  | url
  /-- `Failed to load init segment: <status>` -/
  | status
  /-- `Failed to find moov box` (parse_body) -/
  | noMoov
  /-- `Failed to load init segment: <exception>` – `process_moov` raised (a box it reads is absent) -/
  | parse
  /-- `Failed to load init segment` (validate, after a failed load) -/
  | loadFailed
  /-- `Expected more than one MP4 atom in init segment` -/
  | atomCount
  /-- first box is not `ftyp` -/
  | ftyp
  /-- a mandatory box is missing from the moov (fix 3c714d3); the payload is the index into
  `mandatoryMoovBoxes` -/
  | mandatory (i : Nat)
  deriving DecidableEq, Repr

/-- init_segment.py `MANDATORY_MOOV_BOXES`: each entry lists the accepted alternatives -/
def mandatoryMoovBoxes : List (List String) :=
  [["mvhd"], ["mvex"], ["trex"], ["minf"], ["dinf"], ["stbl"], ["stsd"], ["stts"], ["stsc"],
   ["stsz", "stz2"], ["stco", "co64"], ["vmhd", "smhd", "hmhd", "sthd", "nmhd"]]

/-- boxes `Representation.process_moov` dereferences unconditionally
(dashlive/mpeg/dash/representation.py:257-286): their absence raises.  The sample entry is
looked up inside a `try` (:268-274); only `process_video_moov` dereferences it (:290), so a
video track also needs `minf/stbl/stsd`. -/
def processMoovBoxes (video : Bool) : List String :=
  ["trak", "mdia", "mdhd", "tkhd", "hdlr"] ++ (if video then ["minf", "stbl", "stsd"] else [])

/-- what was parsed from the init-segment response -/
structure InitObs where
  hasUrl : Bool
  status : Nat
  /-- four-character codes of the top-level boxes, in order -/
  top : List String
  /-- four-character codes of every box below the (first) moov -/
  moov : List String
  /-- `hdlr.handler_type == 'vide'` -/
  video : Bool := false
  ranged : Bool := false
  deriving Repr

/-- `InitSegment.load` (init_segment.py:83-116; `parse_body` :118-133): errors and success -/
def initLoad (o : InitObs) : List InitErr × Bool :=
  if ¬ o.hasUrl then ([.url], false) else
  if o.status ≠ (if o.ranged then 206 else 200) then ([.status], false) else
  if ¬ o.top.contains "moov" then ([.noMoov], false) else
  if (processMoovBoxes o.video).all (o.moov.contains ·) then ([], true) else ([.parse], false)

def mandatoryErrors (moov : List String) : List InitErr :=
  (mandatoryMoovBoxes.zipIdx).filterMap fun p =>
    if p.1.any (moov.contains ·) then none else some (InitErr.mandatory p.2)

/-- `InitSegment.validate` structural part (init_segment.py:150-168 + validate_moov's mandatory
box loop :189-196), given that `load` succeeded before (atoms are present) -/
def initValidateLoaded (o : InitObs) : List InitErr :=
  if ¬ (1 < o.top.length) then [.atomCount] else
  (if o.top.head? = some "ftyp" then [] else [.ftyp]) ++ mandatoryErrors o.moov

/-- errors an init segment gathers over prefetch (`load`) and `validate` (which loads again
when the first load left no atoms) -/
def initErrors (o : InitObs) : List InitErr :=
  let l := initLoad o
  if l.2 then initValidateLoaded o
  else if ¬ o.hasUrl then l.1 ++ [.url]
  else l.1 ++ l.1 ++ [.loadFailed]

/-! ## MPD / Period / AdaptationSet / Representation attribute checks -/

inductive MLoc
  | mpd
  | period (p : Nat)
  | adaptationSet (p a : Nat)
  | representation (p a r : Nat)
  /-- the SegmentTimeline inside the SegmentTemplate of adaptation set `a` -/
  | timeline (p a : Nat)
  /-- the SegmentTimeline inside the SegmentTemplate of a Representation -/
  | repTimeline (p a r : Nat)
  deriving DecidableEq, Repr

inductive MErr
  /-- manifest.py `Manifest does not have a Period element` -/
  | noPeriod
  | profiles
  | minBufferTime
  /-- `MPD@type must be dynamic for live manifest` / `must be static for VOD manifest` -/
  | mpdType
  | availabilityStartTime
  | timeShiftBufferDepth
  /-- live: `mediaPresentationDuration must not be present` -/
  | durationPresent
  /-- vod: `Invalid MPD@mediaPresentationDuration` (not positive) -/
  | durationInvalid
  /-- vod: neither MPD@mediaPresentationDuration nor Period@duration -/
  | durationMissing
  /-- vod: minimumUpdatePeriod present -/
  | mupPresent
  /-- vod: availabilityStartTime present -/
  | astPresent
  /-- vod: PatchLocation present -/
  | patchPresent
  /-- period.py `id is mandatory for a live stream` -/
  | periodId
  /-- adaptation_set.py `AdaptationSet@mimeType is a mandatory attribute` -/
  | adpMimeType
  /-- representation.py validate_self -/
  | repBandwidth
  | repId
  | repMimeType
  | initialization
  /-- representation.py generate_segments_live_profile (fix 1951de2) -/
  | media
  | repAst
  | repTsbd
  /-- `SegmentTemplate@duration is missing for a template without a SegmentTimeline element` -/
  | tmplDuration
  /-- segment_timeline.py -/
  | sDuration
  | sStart
  deriving DecidableEq, Repr

structure TemplateAttrs where
  hasMedia : Bool
  hasInit : Bool
  hasDuration : Bool
  /-- `some l`: a SegmentTimeline with these S elements -/
  timeline : Option (List SElem)
  deriving Repr

structure RepAttrs where
  hasId : Bool
  hasBandwidth : Bool
  /-- Representation@mimeType, own or inherited from the AdaptationSet (representation.py:54-55) -/
  hasMimeType : Bool
  /-- a SegmentTemplate child of the Representation itself (it then takes precedence over the
  AdaptationSet's, representation.py:59-60) -/
  ownTemplate : Option TemplateAttrs := none
  deriving Repr

structure AdpAttrs where
  hasMimeType : Bool
  template : Option TemplateAttrs
  reps : List RepAttrs
  deriving Repr

structure PeriodAttrs where
  hasId : Bool
  hasDuration : Bool
  adps : List AdpAttrs
  deriving Repr

structure Doc where
  /-- validator mode `live` (else `vod`) -/
  live : Bool
  hasProfiles : Bool
  hasMinBufferTime : Bool
  /-- MPD@type as written (`none`: absent, defaults to static) -/
  typeDynamic : Option Bool
  hasAst : Bool
  hasTsbd : Bool
  hasMup : Bool
  /-- `some pos`: MPD@mediaPresentationDuration present and (pos ⇔ > 0) -/
  mpdDuration : Option Bool
  nPatches : Nat
  periods : List PeriodAttrs
  deriving Repr

/-- `Manifest.validate_self` (manifest.py:172-236) without the Period@start continuity loop -/
def mpdErrors (d : Doc) : List MErr :=
  (if 0 < d.periods.length then [] else [.noPeriod]) ++
  (if d.hasProfiles then [] else [.profiles]) ++
  (if d.hasMinBufferTime then [] else [.minBufferTime]) ++
  (if d.live then
    (if d.typeDynamic = some true then [] else [.mpdType]) ++
    (if d.hasAst then [] else [.availabilityStartTime]) ++
    (if d.hasTsbd then [] else [.timeShiftBufferDepth]) ++
    (if d.mpdDuration.isNone then [] else [.durationPresent])
  else
    (if d.typeDynamic = some true then [.mpdType] else []) ++
    (match d.mpdDuration with
      | some pos => if pos then [] else [.durationInvalid]
      | none => (d.periods.filter fun p => ¬ p.hasDuration).map fun _ => MErr.durationMissing) ++
    (if d.hasMup then [.mupPresent] else []) ++
    (if d.hasAst then [.astPresent] else []) ++
    (if d.nPatches = 0 then [] else [.patchPresent]))

/-- errors of one Representation that depend on manifest attributes only:
`generate_segments_live_profile` + `generate_segments_using_*` guards, then `validate_self`
(representation.py:135-208, 568-591).  `initOk`: the init segment loaded (generation is
attempted only then, :142). -/
def repAttrErrors (d : Doc) (t : Option TemplateAttrs) (r : RepAttrs) : List MErr :=
  (match t with
   | none => []
   | some t =>
     if ¬ t.hasInit then [] else          -- init_segment.load() fails first (:142)
     if ¬ t.hasMedia then [.media] else
     if d.live ∧ ¬ d.hasAst then [.repAst] else
     if d.live ∧ ¬ d.hasTsbd then [.repTsbd] else
     if t.timeline.isNone ∧ ¬ t.hasDuration then [.tmplDuration] else []) ++
  (match t with
   | some t => if t.hasInit then [] else [.initialization]
   | none => []) ++
  (if r.hasBandwidth then [] else [.repBandwidth]) ++
  (if r.hasId then [] else [.repId]) ++
  (if r.hasMimeType then [] else [.repMimeType])

def timelineErrors (t : Option TemplateAttrs) : List MErr :=
  match t with
  | some { timeline := some l, .. } =>
    (tlExpand none l).2.map fun e => match e with
      | .missingD => MErr.sDuration
      | .missingStart => MErr.sStart
  | _ => []

/-- all attribute-level errors of a document with their location -/
def docErrors (d : Doc) : List (MLoc × MErr) :=
  (mpdErrors d).map (fun e => (MLoc.mpd, e)) ++
  (d.periods.zipIdx).flatMap fun (p, pi) =>
    (if d.live ∧ ¬ p.hasId then [(MLoc.period pi, MErr.periodId)] else []) ++
    (p.adps.zipIdx).flatMap fun (a, ai) =>
      (if a.hasMimeType then [] else [(MLoc.adaptationSet pi ai, MErr.adpMimeType)]) ++
      (timelineErrors a.template).map (fun e => (MLoc.timeline pi ai, e)) ++
      (a.reps.zipIdx).flatMap fun (r, ri) =>
        (timelineErrors r.ownTemplate).map (fun e => (MLoc.repTimeline pi ai ri, e)) ++
        (repAttrErrors d (r.ownTemplate <|> a.template) r).map fun e => (MLoc.representation pi ai ri, e)

/-! ## the table of attributes the validator requires

One row per (element, attribute, mode) whose absence the validator reports, with the error and
the class of element the error is located at.  The corruption catalogue's "mandatory attribute
removed" kind is *enumerated* from this table (driver channel `vattrs`), and
`Props/C18.lean` proves by `decide` that the removal of every row from a manifest shaped like the
server's yields the stated error at the stated place. -/

inductive Elem
  | mpd | period | adaptationSet | representation | segmentTemplate | s
  deriving DecidableEq, Repr

/-- where the error is attached, relative to the element that lost the attribute -/
inductive LocKind
  | mpd | period | adaptationSet | representation | timeline
  deriving DecidableEq, Repr

structure AttrReq where
  elem : Elem
  attr : String
  /-- the mode in which the attribute is required: `true` live (dynamic), `false` vod (static) -/
  live : Bool
  /-- `some true`: only manifests with a SegmentTimeline have it, `some false`: only those without -/
  timeline : Option Bool
  loc : LocKind
  err : MErr
  deriving DecidableEq, Repr

def mandatoryAttrs : List AttrReq :=
  let both (f : Bool → AttrReq) : List AttrReq := [f true, f false]
  [ { elem := .mpd, attr := "type", live := true, timeline := none, loc := .mpd, err := .mpdType },
    { elem := .mpd, attr := "availabilityStartTime", live := true, timeline := none, loc := .mpd,
      err := .availabilityStartTime },
    { elem := .mpd, attr := "availabilityStartTime", live := true, timeline := none, loc := .representation,
      err := .repAst },
    { elem := .mpd, attr := "timeShiftBufferDepth", live := true, timeline := none, loc := .mpd,
      err := .timeShiftBufferDepth },
    { elem := .mpd, attr := "timeShiftBufferDepth", live := true, timeline := none, loc := .representation,
      err := .repTsbd },
    { elem := .mpd, attr := "mediaPresentationDuration", live := false, timeline := none, loc := .mpd,
      err := .durationMissing },
    { elem := .period, attr := "id", live := true, timeline := none, loc := .period, err := .periodId } ] ++
  both (fun l => { elem := .mpd, attr := "profiles", live := l, timeline := none, loc := .mpd, err := .profiles }) ++
  both (fun l => { elem := .mpd, attr := "minBufferTime", live := l, timeline := none, loc := .mpd,
                   err := .minBufferTime }) ++
  both (fun l => { elem := .adaptationSet, attr := "mimeType", live := l, timeline := none, loc := .adaptationSet,
                   err := .adpMimeType }) ++
  both (fun l => { elem := .representation, attr := "id", live := l, timeline := none, loc := .representation,
                   err := .repId }) ++
  both (fun l => { elem := .representation, attr := "bandwidth", live := l, timeline := none,
                   loc := .representation, err := .repBandwidth }) ++
  both (fun l => { elem := .segmentTemplate, attr := "media", live := l, timeline := none,
                   loc := .representation, err := .media }) ++
  both (fun l => { elem := .segmentTemplate, attr := "initialization", live := l, timeline := none,
                   loc := .representation, err := .initialization }) ++
  both (fun l => { elem := .segmentTemplate, attr := "duration", live := l, timeline := some false,
                   loc := .representation, err := .tmplDuration }) ++
  both (fun l => { elem := .s, attr := "d", live := l, timeline := some true, loc := .timeline, err := .sDuration }) ++
  both (fun l => { elem := .s, attr := "t", live := l, timeline := some true, loc := .timeline, err := .sStart })

/-- a manifest shaped like the server's: one Period, one AdaptationSet with the SegmentTemplate,
one Representation; `timeline` chooses `$Time$` + SegmentTimeline or `$Number$` + `@duration` -/
def canonicalDoc (live timeline : Bool) : Doc :=
  { live := live, hasProfiles := true, hasMinBufferTime := true,
    typeDynamic := some live, hasAst := live, hasTsbd := live, hasMup := live,
    mpdDuration := if live then none else some true, nPatches := 0,
    periods := [{ hasId := true, hasDuration := false, adps := [
      { hasMimeType := true,
        template := some { hasMedia := true, hasInit := true, hasDuration := !timeline,
                           timeline := if timeline then
                             some [{ t := some 0, d := some 960, r := 3 }, { t := none, d := some 480, r := 0 }]
                           else none },
        reps := [{ hasId := true, hasBandwidth := true, hasMimeType := true }] }] }] }

def mapFirst {α : Type} (f : α → α) : List α → List α
  | [] => []
  | x :: xs => f x :: xs

def mapPeriod (f : PeriodAttrs → PeriodAttrs) (d : Doc) : Doc := { d with periods := mapFirst f d.periods }

def mapAdp (f : AdpAttrs → AdpAttrs) (d : Doc) : Doc :=
  mapPeriod (fun p => { p with adps := mapFirst f p.adps }) d

def mapRep (f : RepAttrs → RepAttrs) (d : Doc) : Doc :=
  mapAdp (fun a => { a with reps := mapFirst f a.reps }) d

def mapTemplate (f : TemplateAttrs → TemplateAttrs) (d : Doc) : Doc :=
  mapAdp (fun a => { a with template := a.template.map f }) d

def mapFirstS (f : SElem → SElem) (d : Doc) : Doc :=
  mapTemplate (fun t => { t with timeline := t.timeline.map (mapFirst f) }) d

/-- the document with the attribute of the row removed (from the first element of its kind) -/
def removeAttr (r : AttrReq) (d : Doc) : Doc :=
  match r.elem, r.attr with
  | .mpd, "type" => { d with typeDynamic := none }
  | .mpd, "profiles" => { d with hasProfiles := false }
  | .mpd, "minBufferTime" => { d with hasMinBufferTime := false }
  | .mpd, "availabilityStartTime" => { d with hasAst := false }
  | .mpd, "timeShiftBufferDepth" => { d with hasTsbd := false }
  | .mpd, "mediaPresentationDuration" => { d with mpdDuration := none }
  | .period, "id" => mapPeriod (fun p => { p with hasId := false }) d
  | .adaptationSet, "mimeType" => mapAdp (fun a => { a with hasMimeType := false }) d
  | .representation, "id" => mapRep (fun x => { x with hasId := false }) d
  | .representation, "bandwidth" => mapRep (fun x => { x with hasBandwidth := false }) d
  | .segmentTemplate, "media" => mapTemplate (fun t => { t with hasMedia := false }) d
  | .segmentTemplate, "initialization" => mapTemplate (fun t => { t with hasInit := false }) d
  | .segmentTemplate, "duration" => mapTemplate (fun t => { t with hasDuration := false }) d
  | .s, "d" => mapFirstS (fun s => { s with d := none }) d
  | .s, "t" => mapFirstS (fun s => { s with t := none }) d
  | _, _ => d

/-- the location of the row's error in a canonical document -/
def AttrReq.mloc (r : AttrReq) : MLoc :=
  match r.loc with
  | .mpd => .mpd
  | .period => .period 0
  | .adaptationSet => .adaptationSet 0 0
  | .representation => .representation 0 0 0
  | .timeline => .timeline 0 0

/-- the rows that apply to a manifest of the given mode and addressing -/
def AttrReq.appliesTo (r : AttrReq) (live timeline : Bool) : Bool :=
  r.live == live && (match r.timeline with
    | none => true
    | some t => t == timeline)

/-! ## checks across a manifest refresh (validator.py:239-255) -/

inductive RefreshErr
  /-- `MPD@id has changed` -/
  | mpdId
  /-- `availabilityStartTime has changed` -/
  | availabilityStartTime
  /-- `Manifest should have updated by now` -/
  | stale
  deriving DecidableEq, Repr

/-- times in µs; `ast = none`: attribute absent -/
structure Refresh where
  idEqual : Bool
  prevAst : Option Int
  ast : Option Int
  prevPublish : Int
  publish : Int
  /-- MPD@minimumUpdatePeriod of the new manifest -/
  mup : Option Int
  deriving Repr

def refreshErrors (r : Refresh) : List RefreshErr :=
  (if r.idEqual then [] else [.mpdId]) ++
  (if r.prevAst = r.ast then [] else [.availabilityStartTime]) ++
  (match r.mup with
   | some m => if r.publish - r.prevPublish < 3 * m then [] else [.stale]
   | none => [])

/-! ## error bookkeeping of a session (validator.py:106-147, dash_element.py:129-147)

Errors are opaque here (a natural number identifies one `ValidationError` object).  The
validator keeps three stores: its own lists (`DashValidator.attrs/elt`: the cross-refresh findings,
`Failed to load manifest`, `vod != live`), the lists of the current manifest tree, and `history`,
to which `refresh()` moves the outgoing tree's errors (validator.py:123-126: append
`prev_manifest.get_errors()`, then `prev_manifest.reset_errors()` – the validator's own lists
are *not* touched). -/

structure Report where
  history : List (List Nat)
  top : List Nat
  cur : List Nat
  deriving Repr, DecidableEq

inductive SessionOp
  /-- some step of the session (load, a `validate()` pass, `sleep()`, the fetch inside
  `refresh()`) recorded these new errors on the validator itself / in the current tree -/
  | found (top tree : List Nat)
  /-- the archiving step of `refresh()` -/
  | refresh
  deriving Repr, DecidableEq

def Report.init : Report := { history := [], top := [], cur := [] }

def Report.apply (r : Report) : SessionOp → Report
  | .found t c => { r with top := r.top ++ t, cur := r.cur ++ c }
  | .refresh => { history := r.history ++ [r.cur], top := r.top, cur := [] }

/-- `DashValidator.get_errors()` (validator.py:128-133): history, then own lists, then the tree -/
def Report.final (r : Report) : List Nat := r.history.flatten ++ r.top ++ r.cur

/-- `DashValidator.has_errors()` (validator.py:119-126) -/
def Report.hasErrors (r : Report) : Bool := !r.final.isEmpty

def runSession (ops : List SessionOp) : Report := ops.foldl Report.apply Report.init

end DashLive.Validator
