import DashLive.Model.Bits
/-
CRC-32/MPEG-2 as used by `dashlive/mpeg/section_table.py:44-46, 61-63`
(`crccheck.crc.Crc32Mpeg2`: polynomial 0x04C11DB7, initial value 0xFFFFFFFF, no
reflection, no final xor), modelled as the bit-serial shift register.  The
table-driven byte-wise routine of crccheck computes the same function (bytes are
fed MSB first); that equality is a correspondence obligation (channel `crc`).
-/
namespace DashLive.Crc32
open DashLive.Bits

/-- the generator polynomial, 32 coefficient bits (x³¹ … x⁰) -/
def poly : Bits := putBits 32 0x04C11DB7

def xorBits (a b : Bits) : Bits := List.zipWith (fun x y => x != y) a b

/-- shift one message bit into the register (MSB of the register first) -/
def step (reg : Bits) (bit : Bool) : Bits :=
  match reg with
  | [] => []
  | top :: rest =>
    let sh := rest ++ [false]
    if top != bit then xorBits sh poly else sh

def run (reg : Bits) (msg : Bits) : Bits := msg.foldl step reg

/-- `Crc32Mpeg2()` initial register -/
def init : Bits := List.replicate 32 true

/-- the register after the whole message: `crc.final()` written as 32 bits -/
def crcBits (msg : Bits) : Bits := run init msg

/-- `crc.final()` as an integer -/
def crc32 (msg : Bits) : Nat := bitsToNat (crcBits msg)

end DashLive.Crc32
