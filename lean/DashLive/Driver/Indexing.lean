import DashLive.Model.Indexing
import DashLive.Driver.Util
/-! channel `boxindex <kind:pos:size;…>` → `pos:size;…` (indexed segments, file order).
kinds: ftyp moof sidx moov mdat free, anything else = other. -/
namespace DashLive.Driver.Indexing
open DashLive.Driver DashLive.Indexing

def parseKind : String → Kind
  | "ftyp" => .ftyp | "moof" => .moof | "sidx" => .sidx | "moov" => .moov
  | "mdat" => .mdat | "free" => .free | _ => .other

def parseBox (s : String) : Option Box :=
  match s.splitOn ":" with
  | [k, p, z] => do some { kind := parseKind k, pos := ← parseNat p, size := ← parseNat z }
  | _ => none

def boxindex : List String → Option String
  | [spec] => do
    let boxes ← (spec.splitOn ";").mapM parseBox
    let segs := index boxes
    some (if segs.isEmpty then "-" else joinWith ";" (segs.map fun s => s!"{s.pos}:{s.size}"))
  | _ => none

def channels : List (String × (List String → Option String)) := [("boxindex", boxindex)]

end DashLive.Driver.Indexing
