import DashLive.Model.Indexing
import DashLive.Driver.Util
/-! channel `boxindex <kind:pos:size;…>` → `pos:size;…` (indexed segments, file order).
kinds: ftyp moof sidx moov mdat free, anything else = other. -/
namespace DashLive.Driver.Indexing
open DashLive.Driver DashLive.Indexing

def parseKind : String → Kind
  | "ftyp" => .ftyp | "moof" => .moof | "sidx" => .sidx | "moov" => .moov
  | "mdat" => .mdat | "free" => .free | _ => .other

def parseBox (s : String) : Option Box :=
  match s.splitOn ":" with
  | [k, p, z] => do some { kind := parseKind k, pos := ← parseNat p, size := ← parseNat z }
  | _ => none

def boxindex : List String → Option String
  | [spec] => do
    let boxes ← (spec.splitOn ";").mapM parseBox
    let segs := index boxes
    some (if segs.isEmpty then "-" else joinWith ";" (segs.map fun s => s!"{s.pos}:{s.size}"))
  | _ => none

/-- `loadrep <default_sample_duration> <seq:tfdt|-:d,d,…;…>` →
`<durs> <start_number> <start_time> <media_duration|-> <segment_duration|->` -/
def parseFrag (s : String) : Option Frag :=
  match s.splitOn ":" with
  | [q, t, ds] => do
    let seq ← parseNat q
    let tfdt ← if t == "-" then some none else (parseNat t).map some
    let durs ← parseNatList ds
    some { seq := seq, tfdt := tfdt, sampleDurs := durs }
  | _ => none

def showOpt : Option Nat → String
  | some n => toString n
  | none => "-"

def loadrep : List String → Option String
  | [dflt, spec] => do
    let d ← parseNat dflt
    let frags ← (spec.splitOn ";").mapM parseFrag
    let r := loadRep d frags
    some s!"{joinWith "," (r.durs.map toString)} {r.startNumber} {r.startTime} {showOpt r.mediaDuration} {showOpt r.segmentDuration}"
  | _ => none

def channels : List (String × (List String → Option String)) :=
  [("boxindex", boxindex), ("loadrep", loadrep)]

end DashLive.Driver.Indexing
