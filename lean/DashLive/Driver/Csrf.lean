import DashLive.Model.Auth
import DashLive.Model.Csrf
import DashLive.Model.Life
import DashLive.Driver.Util
/-! Driver channels of C15.

`authz <kind> <session> <token> <target> <flags> <guards>` → `<verdict> <allowed>`
  kind ∈ none|media|admin|self; session, target ∈ nobody|guest|user|media|admin (identity of the
  session cookie; account named in the URL, nobody = some other account);
  token ∈ none | <ident> (owner of an access token) | <ident>:refresh;
  flags = 4 characters 0/1: ajax targetExists csrfPresent csrfOk;
  guards = `-` or `,`-separated, in execution order:
    `login:<html>:<admin>:<perm>` `jwt:<refresh>:<optional>` `jwtlogin:<admin>:<perm>`
    `csrfdec:<hasNext>:<optional>` `csrfbody` `loader` `selforadmin:<jwt>` `spa` `other`
    (perm ∈ -|u|m|a; service / loader names do not influence a verdict and are not sent);
  verdict = `pass` | `block` | `stop:<status>`; allowed = 0/1 (`mayChange`: the documentation lets the
  holder of these identities change state of this kind).

`csrf_seq <strict 0|1> <op;op;…>`, every string hex-encoded (`-` = empty string):
    `i:<service>:<cookie>:<origin>:<salt>:<sig>`  the implementation issued salt‖sig for these;
                                                   defines `mac` at that message; answers the token (hex)
    `c:<service>:<cookie|none>:<origin>:<wire>`   the submitted text, still percent-encoded (any
                                                   spelling); the model decodes it with `pctDecode`
                                                   → accepted | noCookie | reuse | badSignature
    `p`                                            server restart (prune_database(all_csrf=True)) → pruned
    `x`                                            prune_database(all_csrf=False) → prunedExpired
    `t:<seconds>`                                  the clock reads <seconds> from here on → tick
    `r`                                            any other request of any user (login, logout, token
                                                   refresh …) → request
  `mac` is the implementation's MAC on the messages of the `i` operations and the injective,
  never empty `'?' :: message` elsewhere. -/
namespace DashLive.Driver.Csrf
open DashLive.Driver DashLive.Auth DashLive.Csrf

def parseBool : String → Option Bool
  | "0" => some false | "1" => some true | _ => none

def parsePerm : String → Option (Option Perm)
  | "-" => some none | "u" => some (some .user) | "m" => some (some .media)
  | "a" => some (some .admin) | _ => none

def parseIdent : String → Option Ident
  | "nobody" => some .nobody | "guest" => some .guest | "user" => some .user
  | "media" => some .media | "admin" => some .admin | _ => none

/-- (owner, isRefresh) -/
def parseToken (s : String) : Option (Option Ident × Bool) :=
  match s.splitOn ":" with
  | ["none"] => some (none, false)
  | [u] => do some (some (← parseIdent u), false)
  | [u, "refresh"] => do some (some (← parseIdent u), true)
  | _ => none

def parseKind : String → Option Kind
  | "none" => some .none | "media" => some .media | "admin" => some .admin
  | "self" => some .self | _ => none

def parseGuard (s : String) : Option Guard :=
  match s.splitOn ":" with
  | ["login", h, a, p] => do some (.loginRequired (← parseBool h) (← parseBool a) (← parsePerm p))
  | ["jwt", r, o] => do some (.jwtRequired (← parseBool r) (← parseBool o))
  | ["jwtlogin", a, p] => do some (.jwtLoginRequired (← parseBool a) (← parsePerm p))
  | ["csrfdec", n, o] => do some (.csrfDecorator "" (← parseBool n) (← parseBool o))
  | ["csrfbody"] => some (.csrfBody "")
  | ["loader"] => some (.loader "")
  | ["selforadmin", j] => do some (.selfOrAdmin (← parseBool j))
  | ["spa"] => some .spa
  | ["other"] => some (.other "")
  | _ => none

def showVerdict : Verdict → String
  | .pass => "pass"
  | .block => "block"
  | .stop s => s!"stop:{s}"

def authz : List String → Option String
  | [kind, session, token, target, flags, guards] => do
    let k ← parseKind kind
    let s ← parseIdent session
    let (t, rf) ← parseToken token
    let e ← parseIdent target
    let r : Request ← match flags.toList.map (fun c => parseBool (String.singleton c)) with
      | [some a, some b, some c, some d] =>
        some { session := s, token := t, tokenIsRefresh := rf, ajax := a, targetExists := b,
               target := e, csrfPresent := c, csrfOk := d }
      | _ => none
    let gs ← if guards == "-" then some [] else (guards.splitOn ",").mapM parseGuard
    let v := evalChain gs r
    some s!"{showVerdict v} {if mayChange k r then 1 else 0}"
  | _ => none

/-- hex → characters (bytes are Latin-1 code points; all protocol strings are ASCII) -/
def parseStr (s : String) : Option Str :=
  (parseHex s).map fun bs => bs.map fun b => Char.ofNat b.toNat

def showStr (s : Str) : String :=
  toHex (s.map fun c => UInt8.ofNat c.toNat)

inductive Op
  | issue (svc ck o salt sig : Str)
  | check (svc : Str) (ck : Option Str) (o tok : Str)
  | prune
  | pruneExpired
  | tick (n : Nat)
  | request

def parseOp (s : String) : Option Op :=
  match s.splitOn ":" with
  | ["i", svc, ck, o, salt, sig] => do
    some (.issue (← parseStr svc) (← parseStr ck) (← parseStr o) (← parseStr salt) (← parseStr sig))
  | ["c", svc, ck, o, tok] => do
    let cookie ← if ck == "none" then some none else (parseStr ck).map some
    some (.check (← parseStr svc) cookie (← parseStr o) (← parseStr tok))
  | ["p"] => some .prune
  | ["x"] => some .pruneExpired
  | ["t", n] => (parseNat n).map .tick
  | ["r"] => some .request
  | _ => none

def macOf (table : List (Str × Str)) (m : Str) : Str :=
  match table.lookup m with
  | some sig => sig
  | none => '?' :: m

def showResult : Result → String
  | .accepted => "accepted" | .noCookie => "noCookie" | .reuse => "reuse"
  | .badSignature => "badSignature"

def runOps (c : Cfg) : St → List Op → List String
  | _, [] => []
  | st, .issue svc ck o salt _ :: rest => showStr (issue c svc ck o salt) :: runOps c st rest
  | st, .check svc ck o tok :: rest =>
    let (st', res) := checkWire c st svc ck o tok
    showResult res :: runOps c st' rest
  | st, .prune :: rest => "pruned" :: runOps c (prune st) rest
  | st, .pruneExpired :: rest => "prunedExpired" :: runOps c (pruneExpired st) rest
  | st, .tick n :: rest => "tick" :: runOps c { st with now := n } rest
  | st, .request :: rest => "request" :: runOps c st rest

def csrfSeq : List String → Option String
  | [strict, ops] => do
    let strict ← parseBool strict
    let ops ← (ops.splitOn ";").mapM parseOp
    let table := ops.filterMap fun
      | .issue svc ck o salt sig => some (message strict ck svc o (salt.take saltLen), sig)
      | _ => none
    let c : Cfg := { mac := macOf table, strictOrigin := strict, unquote := pctDecode }
    some (joinWith ";" (runOps c St.empty ops))
  | _ => none

/-! `lifecycle <users,…> <op;op;…>` – credential lifecycle (`DashLive.Life`), accounts are numbers.
  `L<u>` login of account u (logins are numbered 0,1,… in order) → ok | refused
  `F<k>` GET /api/refresh/access with the refresh token of login k; the access token obtained becomes
         access token number 1,2,… of login k (number 0 is the one the login returned) → ok | refused
  `O<k>.<j>` DELETE /api/login with access token j of login k → ok | refused
  `H<k>` GET /logout with the session cookie of login k → done
  `D<u>` an admin deletes account u → done        `P` server restart → done       `T<n>` clock → done
  probes: `a<k>.<j>` access token j of login k, `r<k>` refresh token, `c<k>` session cookie
          → accepted | refused -/
namespace LifeDrv
open DashLive.Life

structure Login where
  access : List Tok
  refresh : Tok
  cookie : Cookie

structure DSt where
  st : Life.St
  logins : List (Option Login)

def parseKJ (s : String) : Option (Nat × Nat) :=
  match s.splitOn "." with
  | [k, j] => do some (← parseNat k, ← parseNat j)
  | _ => none

def getLogin (d : DSt) (k : Nat) : Option Login := (d.logins[k]?).join

def setLogin (d : DSt) (k : Nat) (l : Login) : DSt :=
  { d with logins := d.logins.set k (some l) }

def runOp (d : DSt) (op : String) : Option (DSt × String) :=
  let tag := op.take 1
  let arg := (op.drop 1).toString
  match tag.toString with
  | "L" => do
    let u ← parseNat arg
    match Life.step d.st (.login u) with
    | (st', Life.Out.creds a r c) => some ({ st := st', logins := d.logins ++ [some ⟨[a], r, c⟩] }, "ok")
    | (st', _) => some ({ st := st', logins := d.logins ++ [none] }, "refused")
  | "F" => do
    let k ← parseNat arg
    match getLogin d k with
    | none => some (d, "refused")
    | some l =>
      match Life.step d.st (.refreshAccess l.refresh) with
      | (st', Life.Out.access a) => some (setLogin { d with st := st' } k { l with access := l.access ++ [a] }, "ok")
      | (st', _) => some ({ d with st := st' }, "refused")
  | "O" => do
    let (k, j) ← parseKJ arg
    match (getLogin d k).bind (fun l => l.access[j]?) with
    | none => some (d, "refused")
    | some a =>
      match Life.step d.st (.apiLogout a) with
      | (st', Life.Out.done) => some ({ d with st := st' }, "ok")
      | (st', _) => some ({ d with st := st' }, "refused")
  | "H" => do
    let k ← parseNat arg
    match getLogin d k with
    | none => some (d, "done")
    | some l => some ({ d with st := (Life.step d.st (.htmlLogout l.cookie)).1 }, "done")
  | "D" => do
    let u ← parseNat arg
    some ({ d with st := (Life.step d.st (.deleteUser u)).1 }, "done")
  | "P" => some ({ d with st := (Life.step d.st .restart).1 }, "done")
  | "T" => do
    let n ← parseNat arg
    some ({ d with st := (Life.step d.st (.tick n)).1 }, "done")
  | "a" => do
    let (k, j) ← parseKJ arg
    match (getLogin d k).bind (fun l => l.access[j]?) with
    | none => some (d, "refused")
    | some a => some (d, if tokAccepted d.st a .access then "accepted" else "refused")
  | "r" => do
    let k ← parseNat arg
    match getLogin d k with
    | none => some (d, "refused")
    | some l => some (d, if tokAccepted d.st l.refresh .refresh then "accepted" else "refused")
  | "c" => do
    let k ← parseNat arg
    match getLogin d k with
    | none => some (d, "refused")
    | some l => some (d, if cookieAccepted d.st l.cookie then "accepted" else "refused")
  | _ => none

def runOps : DSt → List String → Option (List String)
  | _, [] => some []
  | d, op :: rest => do
    let (d', out) ← runOp d op
    let outs ← runOps d' rest
    some (out :: outs)

def lifecycle : List String → Option String
  | [users, ops] => do
    let us ← parseNatList users
    let outs ← runOps { st := { now := 0, rows := [], users := us, nextJti := 0 }, logins := [] } (ops.splitOn ";")
    some (joinWith ";" outs)
  | _ => none

end LifeDrv

/-- `lookup <hex name,hex name,…> <hex name>` → position (0-based) of the account the identity loaders
resolve the name to among the stored accounts (primary-key order), `none` if there is none -/
def lookupCh : List String → Option String
  | [names, name] => do
    let ns ← (names.splitOn ",").mapM parseStr
    let n ← parseStr name
    let accs : List (String × Nat) := (ns.map String.ofList).zipIdx
    match DashLive.Auth.lookupAccount accs (String.ofList n) with
    | some i => some (toString i)
    | none => some "none"
  | _ => none

def channels : List (String × (List String → Option String)) :=
  [("authz", authz), ("csrf_seq", csrfSeq), ("lifecycle", LifeDrv.lifecycle), ("lookup", lookupCh)]

end DashLive.Driver.Csrf
