import DashLive.Model.Events
import DashLive.Model.Scte35
import DashLive.Driver.Util
/-! channels of the C14 event-scheduling model

* `emsg <start> <interval> <count> <duration> <timescale> <version> <inband 0|1> <repTs> <tfdt:dur;…>`
  → one result per segment, joined by `;`: `-` (no boxes), `id,delta,-+id,delta,-…` (v0),
  `id,-,pt+…` (v≠0), or `ValueError` / `AssertionError` / `fuel`.
* `oob <start> <interval> <count> <duration> <inband 0|1>` → `id,pt,duration;…` or `-`
* `emsgbox <version> <flags> <schemehex> <valuehex> <timescale> <time> <duration> <id> <datahex>`
  → hex of the encoded box
* `emsgparse <hex>` → `version flags schemehex valuehex timescale time duration id datahex` or `none` -/
namespace DashLive.Driver.Events
open DashLive.Driver DashLive.Events DashLive.Bits DashLive.Scte35

def parseSeg (t : String) : Option Seg :=
  match t.splitOn ":" with
  | [a, b] => do some ⟨← parseInt a, ← parseInt b⟩
  | _ => none

def showOpt : Option Int → String
  | some v => toString v
  | none => "-"

def showBoxes : Res (List Emsg) → String
  | .ok [] => "-"
  | .ok l => joinWith "+" (l.map fun x => s!"{x.eventId},{showOpt x.delta},{showOpt x.pt}")
  | .valueError => "ValueError"
  | .assertionError => "AssertionError"
  | .outOfFuel => "fuel"

def parseBool (t : String) : Option Bool :=
  if t == "1" then some true else if t == "0" then some false else none

def emsg : List String → Option String
  | [start, interval, count, duration, timescale, version, inband, repTs, segs] => do
    let s : Sched := { start := ← parseInt start, interval := ← parseInt interval,
                       count := ← parseInt count, duration := ← parseInt duration,
                       timescale := ← parseInt timescale, version := ← parseInt version,
                       inband := ← parseBool inband }
    let r ← parseInt repTs
    let gs ← (segs.splitOn ";").mapM parseSeg
    some (joinWith ";" (gs.map fun g => showBoxes (createEmsg s r g)))
  | _ => none

def oob : List String → Option String
  | [start, interval, count, duration, inband] => do
    let s : Sched := { start := ← parseInt start, interval := ← parseInt interval,
                       count := ← parseInt count, duration := ← parseInt duration,
                       timescale := 1, version := 0, inband := ← parseBool inband }
    let l := manifestEvents s
    if l.isEmpty then some "-" else
    some (joinWith ";" (l.map fun e => s!"{e.id},{e.pt},{e.duration}"))
  | _ => none

def emsgbox : List String → Option String
  | [version, flags, scheme, value, timescale, time, duration, id, data] => do
    let b : EmsgBox := { version := ← parseNat version, flags := ← parseNat flags,
                         scheme := ← parseHex scheme, value := ← parseHex value,
                         timescale := ← parseNat timescale, time := ← parseNat time,
                         duration := ← parseNat duration, id := ← parseNat id,
                         data := ← parseHex data }
    some (toHex (encodeEmsg b))
  | _ => none

def emsgparse : List String → Option String
  | [hex] => do
    let l ← parseHex hex
    match parseEmsg l with
    | none => some "none"
    | some b => some s!"{b.version} {b.flags} {toHex b.scheme} {toHex b.value} {b.timescale} {b.time} {b.duration} {b.id} {toHex b.data}"
  | _ => none





/-! SCTE-35 channels (formats: see harness/c14_scte35.py)
* `crc <hex>` → CRC-32/MPEG-2 of the bytes
* `scte35enc <hdr> <cmd> <descs>` → hex of `BinarySignal.encode()`
* `scte35parse <hex>` → `<hdr> <cmd> <descs> <section_length> <splice_command_length>
  <splice_command_type> <descriptor_loop_length> <descriptor lengths> <crc> <crc_valid>` or `none`
* `scte35sig <start> <interval> <count> <duration> <timescale> <program_id> <event_id> <pt>` → hex
  of `create_binary_signal(event_id, pt).encode()` or `ValueError` -/

def b01 (b : Bool) : String := if b then "1" else "0"

def bytesToBits (l : List UInt8) : Bits := l.flatMap fun b => putBits 8 b.toNat

def bitsToHex (b : Bits) : String :=
  match toBytes b with
  | some l => toHex (l.map UInt8.ofNat)
  | none => "unaligned"

def parseOptNat (t : String) : Option (Option Nat) :=
  if t == "-" then some none else (parseNat t).map some

def showOptNat : Option Nat → String
  | none => "-"
  | some v => toString v

def parseSpliceTime (t : String) : Option SpliceTime := (parseOptNat t).map (⟨·⟩)

def parseComponent (t : String) : Option Component :=
  match t.splitOn ":" with
  | [tag, st] => do some ⟨← parseNat tag, ← parseSpliceTime st⟩
  | _ => none

def parseCommand (t : String) : Option Command :=
  match t.splitOn "," with
  | ["null"] => some .null
  | ["time", p] => (parseSpliceTime p).map .timeSignal
  | ["insert", eid, cancel, oon, imm, st, comps, bd, upid, an, ae] => do
    let st ← (if st == "x" then some none else (parseSpliceTime st).map some)
    let comps ← (if comps == "x" then some [] else (comps.splitOn "|").mapM parseComponent)
    let bd ← (if bd == "x" then some none else
      match bd.splitOn ":" with
      | [a, d] => do some (some (⟨← parseBool a, ← parseNat d⟩ : BreakDuration))
      | _ => none)
    some (.insert { eventId := ← parseNat eid, cancel := ← parseBool cancel,
                    outOfNetwork := ← parseBool oon, immediate := ← parseBool imm,
                    spliceTime := st, components := comps, breakDuration := bd,
                    uniqueProgramId := ← parseNat upid, availNum := ← parseNat an,
                    availsExpected := ← parseNat ae })
  | _ => none

def showSpliceTime (t : SpliceTime) : String := showOptNat t.pts

def showCommand : Command → String
  | .null => "null"
  | .timeSignal t => s!"time,{showSpliceTime t}"
  | .insert s =>
    let st := match s.spliceTime with | none => "x" | some t => showSpliceTime t
    let comps := if s.components.isEmpty then "x" else
      joinWith "|" (s.components.map fun c => s!"{c.tag}:{showSpliceTime c.time}")
    let bd := match s.breakDuration with | none => "x" | some b => s!"{b01 b.autoReturn}:{b.duration}"
    s!"insert,{s.eventId},{b01 s.cancel},{b01 s.outOfNetwork},{b01 s.immediate},{st},{comps},{bd},{s.uniqueProgramId},{s.availNum},{s.availsExpected}"

def parseDescriptor (t : String) : Option Descriptor :=
  match t.splitOn "," with
  | ["avail", i, p] => do some (.avail (← parseNat i) (← parseNat p))
  | ["time", i, s, n, o] => do some (.time (← parseNat i) (← parseNat s) (← parseNat n) (← parseNat o))
  | ["seg", i, ev, cancel, dnr, web, blk, arch, devr, dur, ut, upid, ty, sn, se, ssn, sse] => do
    let dur ← (if dur == "x" then some none else (parseNat dur).map some)
    let upid ← parseHex upid
    some (.segmentation (← parseNat i)
      { eventId := ← parseNat ev, cancel := ← parseBool cancel,
        deliveryNotRestricted := ← parseBool dnr, webDeliveryAllowed := ← parseBool web,
        noRegionalBlackout := ← parseBool blk, archiveAllowed := ← parseBool arch,
        deviceRestrictions := ← parseNat devr, duration := dur, upidType := ← parseNat ut,
        upid := upid.map (·.toNat), typeId := ← parseNat ty, segmentNum := ← parseNat sn,
        segmentsExpected := ← parseNat se, subSegmentNum := ← parseNat ssn,
        subSegmentsExpected := ← parseNat sse })
  | _ => none

def showDescriptor : Descriptor → String
  | .avail i p => s!"avail,{i},{p}"
  | .time i s n o => s!"time,{i},{s},{n},{o}"
  | .segmentation i d =>
    let dur := match d.duration with | none => "x" | some v => toString v
    s!"seg,{i},{d.eventId},{b01 d.cancel},{b01 d.deliveryNotRestricted},{b01 d.webDeliveryAllowed},{b01 d.noRegionalBlackout},{b01 d.archiveAllowed},{d.deviceRestrictions},{dur},{d.upidType},{toHex (d.upid.map UInt8.ofNat)},{d.typeId},{d.segmentNum},{d.segmentsExpected},{d.subSegmentNum},{d.subSegmentsExpected}"

def parseSignal (hdr cmd descs : String) : Option Signal :=
  match hdr.splitOn "," with
  | [tid, ssi, pi, sap, pv, enc, alg, adj, cw, tier] => do
    let ds ← (if descs == "x" then some [] else (descs.splitOn ";").mapM parseDescriptor)
    some { tableId := ← parseNat tid, sectionSyntaxIndicator := ← parseBool ssi,
           privateIndicator := ← parseBool pi, sapType := ← parseNat sap,
           protocolVersion := ← parseNat pv, encryptedPacket := ← parseBool enc,
           encryptionAlgorithm := ← parseNat alg, ptsAdjustment := ← parseNat adj,
           cwIndex := ← parseNat cw, tier := ← parseNat tier, command := ← parseCommand cmd,
           descriptors := ds }
  | _ => none

def showSignal (s : Signal) : String :=
  let ds := if s.descriptors.isEmpty then "x" else joinWith ";" (s.descriptors.map showDescriptor)
  s!"{s.tableId},{b01 s.sectionSyntaxIndicator},{b01 s.privateIndicator},{s.sapType},{s.protocolVersion},{b01 s.encryptedPacket},{s.encryptionAlgorithm},{s.ptsAdjustment},{s.cwIndex},{s.tier} {showCommand s.command} {ds}"

def crc : List String → Option String
  | [hex] => do some (toString (Crc32.crc32 (bytesToBits (← parseHex hex))))
  | _ => none

def scte35enc : List String → Option String
  | [hdr, cmd, descs] => do some (bitsToHex (← parseSignal hdr cmd descs).encode)
  | _ => none

def scte35parse : List String → Option String
  | [hex] => do
    match Signal.parse (bytesToBits (← parseHex hex)) with
    | none => some "none"
    | some p =>
      let lens := if p.descriptorLengths.isEmpty then "x" else
        joinWith "," (p.descriptorLengths.map toString)
      some s!"{showSignal p.sig} {p.sectionLength} {p.spliceCommandLength} {p.spliceCommandType} {p.descriptorLoopLength} {lens} {p.crc} {b01 p.crcValid}"
  | _ => none

def scte35sig : List String → Option String
  | [start, interval, count, duration, timescale, programId, eventId, pt] => do
    let s : Sched := { start := ← parseInt start, interval := ← parseInt interval,
                       count := ← parseInt count, duration := ← parseInt duration,
                       timescale := ← parseInt timescale, version := 1, inband := true }
    match scte35Payload s (← parseInt programId) (← parseInt eventId) (← parseInt pt) with
    | none => some "ValueError"
    | some b => some (bitsToHex b)
  | _ => none



/-- `evopt <positive 0|1> <default> <hex of the ASCII option text>` → `ok:<int>` or `ValueError` -/
def evopt : List String → Option String
  | [positive, dflt, hex] => do
    let bytes ← parseHex hex
    let text := bytes.map fun b => Char.ofNat b.toNat
    match parseEventInt (← parseInt dflt) (← parseBool positive) text with
    | .ok v => some s!"ok:{v}"
    | _ => some "ValueError"
  | _ => none

/-- `evdec <int>` → the canonical decimal text `decimalOf` (must be Python's `str`) -/
def evdec : List String → Option String
  | [z] => do some (String.ofList (decimalOf (← parseInt z)))
  | _ => none

/-- channels exported to `Main.lean` (collected by harness/gen_main.py) -/
def channels : List (String × (List String → Option String)) :=
  [("emsg", emsg), ("oob", oob), ("emsgbox", emsgbox), ("emsgparse", emsgparse),
   ("crc", crc), ("scte35enc", scte35enc), ("scte35parse", scte35parse), ("scte35sig", scte35sig), ("evopt", evopt), ("evdec", evdec)]

end DashLive.Driver.Events
