import DashLive.Model.Events
import DashLive.Driver.Util
/-! channels of the C14 event-scheduling model

* `emsg <start> <interval> <count> <duration> <timescale> <version> <inband 0|1> <repTs> <tfdt:dur;…>`
  → one result per segment, joined by `;`: `-` (no boxes), `id,delta,-+id,delta,-…` (v0),
  `id,-,pt+…` (v≠0), or `ValueError` / `AssertionError` / `fuel`.
* `oob <start> <interval> <count> <duration> <inband 0|1>` → `id,pt,duration;…` or `-`
* `emsgbox <version> <flags> <schemehex> <valuehex> <timescale> <time> <duration> <id> <datahex>`
  → hex of the encoded box
* `emsgparse <hex>` → `version flags schemehex valuehex timescale time duration id datahex` or `none` -/
namespace DashLive.Driver.Events
open DashLive.Driver DashLive.Events

def parseSeg (t : String) : Option Seg :=
  match t.splitOn ":" with
  | [a, b] => do some ⟨← parseInt a, ← parseInt b⟩
  | _ => none

def showOpt : Option Int → String
  | some v => toString v
  | none => "-"

def showBoxes : Res (List Emsg) → String
  | .ok [] => "-"
  | .ok l => joinWith "+" (l.map fun x => s!"{x.eventId},{showOpt x.delta},{showOpt x.pt}")
  | .valueError => "ValueError"
  | .assertionError => "AssertionError"
  | .outOfFuel => "fuel"

def parseBool (t : String) : Option Bool :=
  if t == "1" then some true else if t == "0" then some false else none

def emsg : List String → Option String
  | [start, interval, count, duration, timescale, version, inband, repTs, segs] => do
    let s : Sched := { start := ← parseInt start, interval := ← parseInt interval,
                       count := ← parseInt count, duration := ← parseInt duration,
                       timescale := ← parseInt timescale, version := ← parseInt version,
                       inband := ← parseBool inband }
    let r ← parseInt repTs
    let gs ← (segs.splitOn ";").mapM parseSeg
    some (joinWith ";" (gs.map fun g => showBoxes (createEmsg s r g)))
  | _ => none

def oob : List String → Option String
  | [start, interval, count, duration, inband] => do
    let s : Sched := { start := ← parseInt start, interval := ← parseInt interval,
                       count := ← parseInt count, duration := ← parseInt duration,
                       timescale := 1, version := 0, inband := ← parseBool inband }
    let l := manifestEvents s
    if l.isEmpty then some "-" else
    some (joinWith ";" (l.map fun e => s!"{e.id},{e.pt},{e.duration}"))
  | _ => none

def emsgbox : List String → Option String
  | [version, flags, scheme, value, timescale, time, duration, id, data] => do
    let b : EmsgBox := { version := ← parseNat version, flags := ← parseNat flags,
                         scheme := ← parseHex scheme, value := ← parseHex value,
                         timescale := ← parseNat timescale, time := ← parseNat time,
                         duration := ← parseNat duration, id := ← parseNat id,
                         data := ← parseHex data }
    some (toHex (encodeEmsg b))
  | _ => none

def emsgparse : List String → Option String
  | [hex] => do
    let l ← parseHex hex
    match parseEmsg l with
    | none => some "none"
    | some b => some s!"{b.version} {b.flags} {toHex b.scheme} {toHex b.value} {b.timescale} {b.time} {b.duration} {b.id} {toHex b.data}"
  | _ => none

/-- channels exported to `Main.lean` (collected by harness/gen_main.py) -/
def channels : List (String × (List String → Option String)) :=
  [("emsg", emsg), ("oob", oob), ("emsgbox", emsgbox), ("emsgparse", emsgparse)]

end DashLive.Driver.Events
