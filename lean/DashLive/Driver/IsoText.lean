import DashLive.Model.IsoText
import DashLive.Driver.Util
/-! Channels of the ISO-8601 text model (C19).

* `isodur <whole> <fracMicros>` – every text `toIsoDuration` may produce for the
  value `whole + fracMicros/10⁶` s: one text per admissible millisecond count
  (two on an exact tie `fracMicros ≡ 500 (mod 1000)`), joined by `|`.
* `isodurf <bits>` – `toIsoDuration` of the IEEE double with these bits (decimal
  `UInt64`), the float front end re-implemented with Lean `Float`
  (`int((secs - floor(secs)) * 1000 + 0.5)`, `int(floor(secs))`); answer
  `<text> <whole> <ms>`.
* `isoparse <hex>` – `from_isodatetime` of the ASCII text given in hex:
  `none` | `err` | `dur <µs>` | `dt <y> <m> <d> <h> <mi> <s> <us> <off|naive>` | `other`.
* `isodt <y> <m> <d> <h> <mi> <s> <us> <off|naive>` – `<to_iso_datetime text> <instant µs>`.
* `tcconv <tc> <ts>` – `<toTd tc> <toTc (toTd tc)>`.
* `tdconv <δµs> <k>` – `<toTc δ> <toTd (toTc δ)> <multiply_timedelta δ k> <scale numerator>`.
-/
namespace DashLive.Driver.IsoText
open DashLive.Driver DashLive.IsoText

def txt (t : Text) : String := String.ofList t

def isodur : List String → Option String
  | [w, f] => do
    let whole ← parseNat w
    let frac ← parseNat f
    if frac ≥ 1000000 then none else
    let lo := (frac + 499) / 1000
    let hi := (frac + 500) / 1000
    let cands := if lo = hi then [hi] else [lo, hi]
    some (joinWith "|" ((cands.filter (fun ms => decide (Admissible frac ms))).map
      fun ms => txt (isoDurationBack whole ms)))
  | _ => none

/-- the float front end of `toIsoDuration` (date_time.py:94-95) on an IEEE double -/
def frontEndFloat (secs : Float) : Nat × Nat :=
  let fl := secs.floor
  let ms := ((secs - fl) * 1000.0 + 0.5).toUInt64.toNat
  (fl.toUInt64.toNat, ms)

def isodurf : List String → Option String
  | [b] => do
    let bits ← parseNat b
    if bits ≥ 2 ^ 64 then none else
    let secs := Float.ofBits (UInt64.ofNat bits)
    -- non-negative finite values below 2^63 only
    if !(secs ≥ 0.0 && secs < 9.0e18) then none else
    let (whole, ms) := frontEndFloat secs
    some s!"{txt (isoDurationBack whole ms)} {whole} {ms}"
  | _ => none

def hexToText (s : String) : Option Text := do
  let bytes ← parseHex s
  if bytes.any (· ≥ 128) then none else
  some (bytes.map fun b => Char.ofNat b.toNat)

def showOff : Option Int → String
  | none => "naive"
  | some o => toString o

def isoparse : List String → Option String
  | [h] => do
    let t ← hexToText h
    some <| match fromIsoDateTime t with
    | none => "err"
    | some .nothing => "none"
    | some (.duration us) => s!"dur {us}"
    | some (.datetime d) =>
      s!"dt {d.year} {d.month} {d.day} {d.hour} {d.minute} {d.second} {d.micro} {showOff d.offset}"
    | some .other => "other"
  | _ => none

def isodt : List String → Option String
  | [y, mo, d, h, mi, s, us, off] => do
    let o ← if off == "naive" then some none else (parseInt off).map some
    let dt := DateTime.mk (← parseNat y) (← parseNat mo) (← parseNat d) (← parseNat h)
      (← parseNat mi) (← parseNat s) (← parseNat us) o
    if !(dt.valid && dt.offsetOk) then none else
    some s!"{txt (toIsoDateTime dt)} {dt.instant}"
  | _ => none

def tcconv : List String → Option String
  | [tc, ts] => do
    let tc ← parseInt tc
    let ts ← parseInt ts
    if ts ≤ 0 then none else
    let td := timecodeToTimedelta tc ts
    some s!"{td} {timedeltaToTimecode td ts}"
  | _ => none

def tdconv : List String → Option String
  | [d, k] => do
    let d ← parseInt d
    let k ← parseInt k
    if k ≤ 0 then none else
    let tc := timedeltaToTimecode d k
    some s!"{tc} {timecodeToTimedelta tc k} {multiplyTimedelta d k} {scaleTimedeltaNumer d k}"
  | _ => none

/-- channels exported to `Main.lean` (collected by harness/gen_main.py) -/
def channels : List (String × (List String → Option String)) :=
  [("isodur", isodur), ("isodurf", isodurf), ("isoparse", isoparse), ("isodt", isodt),
   ("tcconv", tcconv), ("tdconv", tdconv)]

end DashLive.Driver.IsoText
