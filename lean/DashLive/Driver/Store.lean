import DashLive.Model.Store
import DashLive.Driver.Util
/-! channel `store_hist <op;op;…>` – runs a management history from the empty
store and prints, for every step, `<result>|<canonical state>`, steps joined by `#`.

ops (fields separated by `:`):
  `as:dir:title`  `es:spk:dir:title:tref|-`  `ds:spk`  `sd:spk:valid(0|1)`
  `up:spk:stem:suffix:idx,ctype,track,enc,kid+kid|-,badlang`
  `ix:mfid`  `em:spk:mfid:track`  `dm:spk:mfid`
  `ak:kid:0|1`  `ek:kpk:0|1`  `dk:kpk`
  `am:name:title:periods`  `mm:urlname:bodypk|-:name:title:periods`  `xm:name`
  periods = `-` or `p/p/…`, p = `pk|-,pid,stream,ordering,t+t|-[,fits(0|1)]`

state: `S[pk,dir,title,tref|…]F[pk,name,stream,blob,track.ctype.enc|-,errs]B[pk,filename]K[pk,kid,computed]`
`L[media.key]M[pk,name,title]P[pk,pid,parent,stream,ordering]A[pk,period,track]D[dir/filename=idx.ctype.track.enc.kids.badlang]`,
every table sorted (by primary key; links and disk lexicographically). -/
namespace DashLive.Driver.Store
open DashLive.Driver DashLive.Store

def parseBool : String → Option Bool
  | "0" => some false | "1" => some true | _ => none

def parseOptNat (s : String) : Option (Option Nat) :=
  if s == "-" then some none else (parseNat s).map some

def parsePlusNats (s : String) : Option (List Nat) :=
  if s == "-" then some [] else (s.splitOn "+").mapM parseNat

def parseContent (s : String) : Option Content :=
  match s.splitOn "," with
  | [i, c, t, e, k, b] => do
    some { idx := ← parseBool i, ctype := ← parseNat c, track := ← parseNat t, enc := ← parseBool e,
           kids := if k == "-" then [] else k.splitOn "+", badlang := ← parseBool b }
  | _ => none

def parsePSpec (s : String) : Option PSpec :=
  match s.splitOn "," with
  | [pk, pid, st, o, tr] => do
    some { pk := ← parseOptNat pk, pid := pid, stream := ← parseNat st, ordering := ← parseNat o,
           tracks := ← parsePlusNats tr }
  | [pk, pid, st, o, tr, fits] => do
    some { pk := ← parseOptNat pk, pid := pid, stream := ← parseNat st, ordering := ← parseNat o,
           tracks := ← parsePlusNats tr, fits := ← parseBool fits }
  | _ => none

def parsePeriods (s : String) : Option (List PSpec) :=
  if s == "-" then some [] else (s.splitOn "/").mapM parsePSpec

def parseOp (s : String) : Option Op :=
  match s.splitOn ":" with
  | ["as", d, t] => some (.addStream d t)
  | ["es", k, d, t, r] => do some (.editStream (← parseNat k) d t (if r == "-" then "" else r))
  | ["ds", k] => do some (.delStream (← parseNat k))
  | ["sd", k, v] => do some (.setDefaults (← parseNat k) (← parseBool v))
  | ["up", k, st, su, c] => do some (.upload (← parseNat k) st su (← parseContent c))
  | ["ix", m] => do some (.index (← parseNat m))
  | ["em", k, m, t] => do some (.editMedia (← parseNat k) (← parseNat m) (← parseNat t))
  | ["dm", k, m] => do some (.delMedia (← parseNat k) (← parseNat m))
  | ["ak", kid, c] => do some (.addKey kid (← parseBool c))
  | ["ek", k, c] => do some (.editKey (← parseNat k) (← parseBool c))
  | ["dk", k] => do some (.delKey (← parseNat k))
  | ["am", n, t, ps] => do some (.addMps n t (← parsePeriods ps))
  | ["mm", u, b, n, t, ps] => do some (.editMps u (← parseOptNat b) n t (← parsePeriods ps))
  | ["xm", n] => some (.delMps n)
  | _ => none

def b01 (b : Bool) : String := if b then "1" else "0"

def sortBy {α} (key : α → Nat) (l : List α) : List α := l.mergeSort (fun a b => key a ≤ key b)

def table (tag : String) (rows : List String) : String := tag ++ "[" ++ joinWith "|" rows ++ "]"

def showContent (c : Content) : String :=
  joinWith "." [b01 c.idx, toString c.ctype, toString c.track, b01 c.enc,
                (if c.kids.isEmpty then "-" else joinWith "+" c.kids), b01 c.badlang]

def strLe (a b : String) : Bool := a < b || a == b

def showState (s : St) : String :=
  table "S" ((sortBy (·.pk) s.streams).map fun x =>
    joinWith "," [toString x.pk, x.dir, x.title, x.tref.getD "-"]) ++
  table "F" ((sortBy (·.pk) s.files).map fun x =>
    joinWith "," [toString x.pk, x.name, toString x.stream, toString x.blob,
      (match x.rep with
       | some r => joinWith "." [toString r.track, toString r.ctype, b01 r.enc]
       | none => "-"),
      (if x.errs.isEmpty then "-" else joinWith "+" (x.errs.map toString))]) ++
  table "B" ((sortBy (·.pk) s.blobs).map fun x => joinWith "," [toString x.pk, x.filename]) ++
  table "K" ((sortBy (·.pk) s.keys).map fun x => joinWith "," [toString x.pk, x.kid, b01 x.computed]) ++
  table "L" ((s.links.mergeSort (fun a b => a.1 < b.1 || (a.1 == b.1 && a.2 ≤ b.2))).map fun x =>
    toString x.1 ++ "." ++ toString x.2) ++
  table "M" ((sortBy (·.pk) s.mps).map fun x => joinWith "," [toString x.pk, x.name, x.title]) ++
  table "P" ((sortBy (·.pk) s.periods).map fun x =>
    joinWith "," [toString x.pk, x.pid, toString x.parent, toString x.stream, toString x.ordering]) ++
  table "A" ((sortBy (·.pk) s.adps).map fun x =>
    joinWith "," [toString x.pk, toString x.period, toString x.track]) ++
  table "D" ((s.disk.mergeSort (fun a b => a.dir < b.dir || (a.dir == b.dir && strLe a.filename b.filename))).map
    fun x => x.dir ++ "/" ++ x.filename ++ "=" ++ showContent x.content)

def showRes : Res → String
  | .ok => "ok" | .nf => "nf" | .rej => "rej"

def storeHist : List String → Option String
  | [ops] => do
    let ops ← (ops.splitOn ";").mapM parseOp
    some (joinWith "#" ((run init ops).map fun (st, r) => showRes r ++ "|" ++ showState st))
  | _ => none

/-- channels exported to `Main.lean` (collected by harness/gen_main.py) -/
def channels : List (String × (List String → Option String)) := [("store_hist", storeHist)]

end DashLive.Driver.Store
