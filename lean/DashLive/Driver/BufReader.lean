import DashLive.Model.BufReader
import DashLive.Driver.Util
/-! channel `bufreader <hexfile> <off> <size> <bufsize> <maxbuf> <op;op;…>`
ops: `r:<int>` read, `p:<nat>` peek, `s:<int>:<0|1|2>` seek, `t` tell. -/
namespace DashLive.Driver.BufReader
open DashLive.Driver DashLive.BufReader

def parseOp (s : String) : Option Op :=
  match s.splitOn ":" with
  | ["r", n] => (parseInt n).map Op.read
  | ["p", n] => do
    let k ← parseNat n
    if k = 0 then none else some (Op.peek k)
  | ["s", o, w] => do
    let off ← parseInt o
    let wh ← match w with
      | "0" => some Whence.set | "1" => some Whence.cur | "2" => some Whence.end_ | _ => none
    some (Op.seek off wh)
  | ["t"] => some Op.tell
  | _ => none

def showOut : Out → String
  | .bytes b => toHex b
  | .pos p => toString p

def bufreader : List String → Option String
  | [file, off, size, bs, mb, ops] => do
    let f ← parseHex file
    let c : Cfg := { file := f, offset := ← parseNat off, size := ← parseNat size,
                     bufsize := ← parseNat bs, maxbuf := ← parseNat mb, evict := fun _ => 0 }
    if c.bufsize = 0 then none else
    let ops ← (ops.splitOn ";").mapM parseOp
    some (joinWith ";" ((run c init ops).map showOut))
  | _ => none

/-- channels exported to `Main.lean` (collected by harness/gen_main.py) -/
def channels : List (String × (List String → Option String)) := [("bufreader", bufreader)]

end DashLive.Driver.BufReader
