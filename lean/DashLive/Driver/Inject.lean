import DashLive.Model.OptionErrors
import DashLive.Model.Inject
import DashLive.Model.IsoText
import DashLive.Gen.Options
import DashLive.Driver.Util
/-! Channels for the C16 models (`Model/OptionErrors.lean`, `Model/Inject.lean`).

Text is passed as hex of its UTF-8 bytes (`-` = empty).

* `c16opt <kind> S<hex>`   → `ok` | `ValueError` | `KeyError` | `other`
  `c16opt <kind> <tag>`    (`tag` ∈ none int0 int1 float0 float1 true false bytes list dict)
                           → `ok` | `ValueError` | `TypeError` | `AttributeError`
  the outcome class of the registered `from_string` of that codec kind.  `other`: the
  codec handed a text without `T` that does not start with `P` to `from_isodatetime`
  (the `strptime` fall-backs, not modelled – either a value or `ValueError`).
* `c16calc <hexquery>`     → `ok` | `ValueError` | `other`: `calculate_options` (no
  restrictions) on the query string, over the generated registry table
* `c16inj <failures|-> <verr> <aerr> <terr> <merr> <reqs>` → `code|-` per request, `,` separated
  errs: `code=n<int>` / `code=t<secs>` joined by `;` (`-` = none);
  reqs: `v:<n|->`, `a:<n|->`, `t:<n|->`, `m:<update|->:<live>:<astTod>:<elapsedUs>:<mup>` joined by `;`
  (a leading `x` = the request carries no injection option)
* `c16segs <live> <astTod> <elapsedUs> <depth> <timescale> <segdur> <errs>` → `code=seg,…` | `-`
* `c16gsi <durs,…> <R> <tc> <fuel>` → `found <m> <s> <o>` | `assert` | `running`
* `c16vod <segdur> <start_number> <n> <num | t<time>>` → `ok <seg_num> <mod_segment>` | `refused`:
  the VOD first/last gate and index check of a media request
* `c16ntp <us>`            → `<seconds> <fraction>` | `StructError`: the NTP fields of `/time/http-ntp`
-/
namespace DashLive.Driver.Inject
open DashLive.Driver DashLive.OptionErrors DashLive.Inject
open DashLive.Options (Bytes Val DTCodec Kind ascii findRow firstOnly parseQsl isNoneCI splitOn pyInt)

/-! ### the driver's date-time classifier: C19's model of `from_isodatetime` -/

/-- what the driver knows about a non-empty date-time text -/
inductive DrvIso where
  | cls (c : IsoClass)
  /-- no `T`, no leading `P`: the `strptime` branches -/
  | other
deriving DecidableEq, Repr

def toText (s : Bytes) : List Char := s.map fun b => Char.ofNat b.toNat

/-- `timedelta.max` in microseconds (999999999 days + 1 day − 1 µs) -/
def maxTimedeltaUs : Nat := 1000000000 * 86400 * 1000000 - 1

/-- `none` = `ValueError` -/
def classify (s : Bytes) : Option DrvIso :=
  match DashLive.IsoText.fromIsoDateTime (toText s) with
  | none => none
  | some .nothing => none
  | some (.duration us) => if us ≤ maxTimedeltaUs then some (.cls .duration) else none
  | some (.datetime d) =>
    match d.offset with
    | none => some (.cls .naive)
    | some o =>
      -- `timedelta(minutes=offset)` of FixedOffsetTimeZone overflows (→ ValueError)
      if o.natAbs ≥ 1000000000 * 1440 then none else some (.cls (.aware d.offsetOk))
  | some .other => some .other

def drvCodec : DTCodec DrvIso := { parse := classify, render := fun _ => [] }

/-- the codec for `calcOptions`: unmodelled texts are reported before it is consulted -/
def isoCodec : DTCodec IsoClass :=
  { parse := fun s => match classify s with
      | some (.cls c) => some c
      | _ => none,
    render := fun _ => [] }

def posOther : DashLive.Options.Pos DrvIso → Bool
  | .at .other => true
  | _ => false

def valOther : Val DrvIso → Bool
  | .dt .other => true
  | .errs l => l.any (fun e => posOther e.2)
  | _ => false

def parseKind (s : String) : Option Kind :=
  match s.splitOn ":" with
  | ["bool"] => some .bool
  | ["intOrNone"] => some .intOrNone
  | ["floatOrNone"] => some .floatOrNone
  | ["strOrNone"] => some .strOrNone
  | ["strRaw"] => some .strRaw
  | ["listJoin"] => some .listJoin
  | ["drmSelection"] => some .drmSelection
  | ["quotedUrl"] => some .quotedUrl
  | ["astDateTime"] => some .astDateTime
  | ["dtOrNone"] => some .dtOrNone
  | ["errorList"] => some .errorList
  | ["intOrDefault", k] => (parseInt k).map .intOrDefault
  | ["posIntOrDefault", k] => (parseInt k).map .posIntOrDefault
  | _ => none

def showExc : Exc → String
  | .valueError => "ValueError"
  | .keyError => "KeyError"
  | .typeError => "TypeError"
  | .attributeError => "AttributeError"
  | .overflowError => "OverflowError"
  | .assertionError => "AssertionError"
  | .zeroDivisionError => "ZeroDivisionError"
  | .indexError => "IndexError"
  | .templateError => "TemplateError"
  | .structError => "StructError"

def parseArg (s : String) : Option PyArg :=
  match s with
  | "none" => some .none
  | "int0" => some (.int true)
  | "int1" => some (.int false)
  | "float0" => some (.float true)
  | "float1" => some (.float false)
  | "true" => some (.bool true)
  | "false" => some (.bool false)
  | "bytes" => some .bytes
  | "list" => some .list
  | "dict" => some .dict
  | _ =>
    if s.startsWith "S" then (parseHex (s.drop 1).toString).map .str else none

def chOpt : List String → Option String
  | [k, a] => do
    let kind ← parseKind k
    let arg ← parseArg a
    match fromStringAny drvCodec kind arg with
    | .error e => pure (showExc e)
    | .ok (some v) => pure (if valOther v then "other" else "ok")
    | .ok none => pure "ok"
  | _ => none

/-! ### `calculate_options` over the generated table -/

def tableDefaults : Nat → Val IsoClass := fun i =>
  match DashLive.Gen.Options.table[i]? with
  | some r =>
    (match fromStringX isoCodec r.kind (ascii r.dflt) with
     | .ok v => v
     | .error _ => .none)
  | none => .none

/-- a `vcorrupt` item that reaches `from_isodatetime` with an unmodelled text -/
def corruptOther (s : Bytes) : Bool :=
  !isNoneCI s && ((splitOn 44 s).filter (fun i => !isNoneCI i)).any fun item =>
    (pyInt item).isNone && item != [] && classify item == some .other

/-- does converting this parameter consult the unmodelled part of the date-time parser? -/
def paramOther (kv : Bytes × Bytes) : Bool :=
  match findRow DashLive.Gen.Options.table kv.1 with
  | none => false
  | some i =>
    match DashLive.Gen.Options.table[i]? with
    | none => false
    | some r =>
      (match fromStringX drvCodec r.kind kv.2 with
       | .ok v => valOther v
       | .error _ => false) || (r.cgi == "vcorrupt" && corruptOther kv.2)

def chCalc : List String → Option String
  | [h] => do
    let q ← parseHex h
    let kvs := firstOnly (parseQsl q)
    if kvs.any paramOther then pure "other" else
    match calcOptions isoCodec DashLive.Gen.Options.table tableDefaults kvs with
    | .ok _ => pure "ok"
    | .error e => pure (showExc e)
  | _ => none

/-! ### injection -/

def parsePos (s : String) : Option Inject.Pos :=
  if s.startsWith "n" then (parseInt (s.drop 1).toString).map .num
  else if s.startsWith "t" then (parseNat (s.drop 1).toString).map .tod
  else none

def parseErrs (s : String) : Option (List (Int × Inject.Pos)) :=
  if s == "-" then some [] else
  (s.splitOn ";").mapM fun item =>
    match item.splitOn "=" with
    | [c, p] => do
      let code ← parseInt c
      let pos ← parsePos p
      pure (code, pos)
    | _ => none

def parseOptInt (s : String) : Option (Option Int) :=
  if s == "-" then some none else (parseInt s).map some

def parseBool (s : String) : Option Bool :=
  match s with
  | "0" => some false
  | "1" => some true
  | _ => none

def parseReq (spec0 : Spec) (s0 : String) : Option Req :=
  -- a leading `x`: the request is sent without any injection option
  let spec : Spec := if s0.startsWith "x" then {} else spec0
  let s : String := if s0.startsWith "x" then (s0.drop 1).toString else s0
  match s.splitOn ":" with
  | ["v", n] => (parseOptInt n).map fun seg => { usage := .video, spec := spec, seg := seg }
  | ["a", n] => (parseOptInt n).map fun seg => { usage := .audio, spec := spec, seg := seg }
  | ["t", n] => (parseOptInt n).map fun seg => { usage := .text, spec := spec, seg := seg }
  | ["m", u, live, a, e, mup] => do
    let upd ← parseOptInt u
    let l ← parseBool live
    let a ← parseNat a
    let e ← parseInt e
    let m ← parseNat mup
    pure { usage := .manifest, spec := spec, seg := upd, clock := ⟨l, a, e, m⟩ }
  | _ => none

def showOptInt : Option Int → String
  | some z => toString z
  | none => "-"

def chInj : List String → Option String
  | [f, v, a, t, m, reqs] => do
    let failures ← parseOptInt f
    let verr ← parseErrs v
    let aerr ← parseErrs a
    let terr ← parseErrs t
    let merr ← parseErrs m
    let spec : Spec := { verr := verr, aerr := aerr, terr := terr, merr := merr, failures := failures }
    let rs ← (reqs.splitOn ";").mapM (parseReq spec)
    pure (joinWith "," ((run rs Store.empty).map showOptInt))
  | _ => none

def chSegs : List String → Option String
  | [live, a, e, depth, ts, sd, errs] => do
    let l ← parseBool live
    let a ← parseNat a
    let e ← parseInt e
    let depth ← parseNat depth
    let ts ← parseNat ts
    let sd ← parseNat sd
    let errs ← parseErrs errs
    let out := injectedSegments ⟨l, a, e, 0⟩ depth ts sd errs
    pure (if out.isEmpty then "-" else joinWith "," (out.map fun p => s!"{p.1}={p.2}"))
  | _ => none

def chGsi : List String → Option String
  | [d, r, tc, fuel] => do
    let durs ← parseNatList d
    let r ← parseNat r
    let tc ← parseNat tc
    let fuel ← parseNat fuel
    match getSegmentIndex durs r tc fuel with
    | .found m s o => pure s!"found {m} {s} {o}"
    | .assertionError => pure "assert"
    | .running => pure "running"
  | _ => none

def chNtp : List String → Option String
  | [u] => do
    let us ← parseInt u
    match ntpFields us with
    | .ok (s, f) => pure s!"{s} {f}"
    | .error e => pure (showExc e)
  | _ => none

def chVod : List String → Option String
  | [sd, sn, n, a] => do
    let sd ← parseNat sd
    let sn ← parseNat sn
    let n ← parseNat n
    let addr ← (if a.startsWith "t" then (parseNat (a.drop 1).toString).map Addr.time
                else (parseInt a).map Addr.number)
    match vodLookup sd sn n addr with
    | .ok => pure s!"ok {vodSegNum sd sn addr} {vodModSegment sd sn addr}"
    | .refused => pure "refused"
    | .raised e => pure (showExc e)
  | _ => none

def channels : List (String × (List String → Option String)) :=
  [("c16opt", chOpt), ("c16calc", chCalc), ("c16inj", chInj), ("c16segs", chSegs), ("c16gsi", chGsi),
   ("c16ntp", chNtp), ("c16vod", chVod)]

end DashLive.Driver.Inject
