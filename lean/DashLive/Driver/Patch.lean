import DashLive.Model.Patch
import DashLive.Driver.Util
/-! channel `patchapply <doc1> <doc2>` – applies the model's patch (served at T2 for the
publish time of doc1) to doc1.  A doc is `<mpdId hex>|<publish µs>|<patchLocation hex>|<tl>`
with `<tl>` = `-` or `key~t:d:c,t:d:c#key~…` (key hex, `t` may be `-`).
Answer: `<publish µs> <patchLocation hex> <tl> <originalPublishTime µs> <mpdId hex>`. -/
namespace DashLive.Driver.Patch
open DashLive.Driver DashLive.Segments

def hexToString (s : String) : Option String := do
  let b ← parseHex s
  some (String.ofList (b.map fun x => Char.ofNat x.toNat))

def stringToHex (s : String) : String := toHex (s.toList.map fun c => UInt8.ofNat c.toNat)

def parseNode (s : String) : Option SNode :=
  match s.splitOn ":" with
  | [t, d, c] => do
    let start ← if t == "-" then some none else (parseInt t).map some
    let dur ← parseInt d
    let cnt ← parseNat c
    some { start := start, dur := some dur, count := cnt }
  | _ => none

def parseTl (s : String) : Option ((String × String) × List SNode) :=
  match s.splitOn "~" with
  | [k, nodes] => do
    let key ← hexToString k
    let ns ← if nodes == "" then some [] else (nodes.splitOn ",").mapM parseNode
    some ((key, ""), ns)
  | _ => none

def parseDoc (s : String) : Option Doc :=
  match s.splitOn "|" with
  | [i, p, l, tl] => do
    let mpdId ← hexToString i
    let pub ← parseInt p
    let loc ← hexToString l
    let tls ← if tl == "-" then some [] else (tl.splitOn "#").mapM parseTl
    some { mpdId := mpdId, publishTime := pub, patchLocation := loc, timelines := tls }
  | _ => none

def showNode (n : SNode) : String :=
  (match n.start with | some t => toString t | none => "-") ++ ":" ++
  (match n.dur with | some d => toString d | none => "-") ++ ":" ++ toString n.count

def showTls (l : List ((String × String) × List SNode)) : String :=
  if l.isEmpty then "-" else
  joinWith "#" (l.map fun kv => stringToHex kv.1.1 ++ "~" ++ joinWith "," (kv.2.map showNode))

def patchapply : List String → Option String
  | [a, b] => do
    let d1 ← parseDoc a
    let d2 ← parseDoc b
    let p := servePatch d2 (publishSeconds d1)
    let r := applyPatch p d1
    some s!"{r.publishTime} {stringToHex r.patchLocation} {showTls r.timelines} {p.originalPublishTime} {stringToHex p.mpdId}"
  | _ => none

def channels : List (String × (List String → Option String)) := [("patchapply", patchapply)]

end DashLive.Driver.Patch
