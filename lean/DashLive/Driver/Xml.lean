import DashLive.Model.Xml
import DashLive.Driver.Util
/-! Channels of the XML escaping / lexical model (C05).  Texts travel as the hex of
their UTF-8 encoding (`-` = empty).

* `xmlsafe <hex>`  – `xmlSafe` of the text, hex.
* `autoesc <hex>`  – `autoEscape` (markupsafe) of the text, hex.
* `xmltok <hex>`   – `tags` of the document: `malformed`, or `<nested 0|1> ` followed by the
  tokens joined with `|`: `o;name;an=hexval,…` (start tag), `e;name;…` (empty-element tag),
  `c;name` (end tag), `t;hextext`, `d;hextext` (CDATA), `k` (comment), `p` (PI).
  Values and text are the raw characters of the document (references not expanded).
* `xmlskel <hex>`  – `skeleton` in the same format (no `t` tokens, empty values).
* `xmlctx <hex>`   – the context after reading the text: `text`, `attrDq`, `attrSq`,
  `other` or `malformed` (structure lexer).
* `xslex <dur|dt|uint> <hex>` – `1` / `0`: the XSD recogniser accepts the text.
-/
namespace DashLive.Driver.Xml
open DashLive.Driver DashLive.Xml

def decodeText (s : String) : Option Text := do
  let bytes ← parseHex s
  let str ← String.fromUTF8? (ByteArray.mk bytes.toArray)
  some str.toList

def encodeText (t : Text) : String := toHex (String.ofList t).toUTF8.toList

def xmlsafeCh : List String → Option String
  | [h] => (decodeText h).map fun t => encodeText (xmlSafe t)
  | _ => none

def autoescCh : List String → Option String
  | [h] => (decodeText h).map fun t => encodeText (autoEscape t)
  | _ => none

def showAttrs (as : List (Text × Text)) : String :=
  joinWith "," (as.map fun (n, v) => String.ofList n ++ "=" ++ encodeText v)

def showTok : Tok → String
  | .text s => "t;" ++ encodeText s
  | .open_ n as => "o;" ++ String.ofList n ++ ";" ++ showAttrs as
  | .empty n as => "e;" ++ String.ofList n ++ ";" ++ showAttrs as
  | .close n => "c;" ++ String.ofList n
  | .comment _ => "k"
  | .pi _ => "p"
  | .cdata s => "d;" ++ encodeText s

def showToks (r : Option (List Tok)) : String :=
  match r with
  | none => "malformed"
  | some toks => (if wellNested toks then "1 " else "0 ") ++ joinWith "|" (toks.map showTok)

def xmltok : List String → Option String
  | [h] => (decodeText h).map fun t => showToks (tags t)
  | _ => none

def xmlskel : List String → Option String
  | [h] => (decodeText h).map fun t => showToks (skeleton t)
  | _ => none

def xmlctx : List String → Option String
  | [h] => (decodeText h).map fun t =>
    match modeAfter t with
    | none => "malformed"
    | some (.content _ none) => "text"
    | some (.value q _ _ _ _ none) => if q = '"' then "attrDq" else "attrSq"
    | some _ => "other"
  | _ => none

def xslex : List String → Option String
  | [k, h] => do
    let t ← decodeText h
    let r ← match k with
      | "dur" => some (isXsDuration t)
      | "dt" => some (isXsDateTime t)
      | "uint" => some (isXsUnsigned t)
      | _ => none
    some (if r then "1" else "0")
  | _ => none

/-- channels exported to `Main.lean` (collected by harness/gen_main.py) -/
def channels : List (String × (List String → Option String)) :=
  [("xmlsafe", xmlsafeCh), ("autoesc", autoescCh), ("xmltok", xmltok), ("xmlskel", xmlskel),
   ("xmlctx", xmlctx), ("xslex", xslex)]

end DashLive.Driver.Xml
