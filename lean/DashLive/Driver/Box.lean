import DashLive.Model.Box
import DashLive.Driver.Util
/-!
Line-protocol channels of the ISO-BMFF model (C04).

A forest is a pre-order token stream (tokens are the space separated arguments):

* `N <type> <large> <nchildren>` followed by the children,
* `L <type> <large> <kind> <fields…>`,

`<type>` = 8 hex digits (four-character code) or `u` + 32 hex digits (uuid),
`<large>` = `0|1`; byte strings are hex (`-` = empty), lists are comma separated
(`-` = empty).  Fields per kind: see `parsePayload` / `showPayload`.

Channels (`ctx` = `<ivSize> <saizDefault> <saizSizes>`):

* `boxenc <ctx> <forest…>` → hex of `encBoxes`
* `boxdec <ctx> <hex>` → the forest `decFile` returns, or `none`
* `boxwalk <hex>` → `ok` | `bad` (`walkOk`)
* `tfdtset <version> <flags> <t> <v>` → `<version> <t> <delta>` (`tfdtAssign`)
* `boxedit <ctx> <hex> <edits…>` → `<stored sizes after the edits> <size:pos after encode> <hex>`
* `boxlazy <ctx> <hex> <paths>` → hex of `encL` of the tree in which the listed
  sub-trees are loaded and everything else is raw, and `same` | `differs` for `force`
-/
namespace DashLive.Driver.Box
open DashLive.Driver DashLive.Bytes DashLive.Boxes

abbrev P (α : Type) := List String → Option (α × List String)

def tok : P String
  | [] => none
  | t :: ts => some (t, ts)
def nat : P Nat
  | [] => none
  | t :: ts => (parseNat t).map (·, ts)
def int : P Int
  | [] => none
  | t :: ts => (parseInt t).map (·, ts)
def hex : P Bytes
  | [] => none
  | t :: ts => (parseHex t).map (·, ts)
def natList : P (List Nat)
  | [] => none
  | t :: ts => (parseNatList t).map (·, ts)
def hexList : P (List Bytes)
  | [] => none
  | t :: ts => (if t == "-" then some [] else (t.splitOn ",").mapM parseHex).map (·, ts)
def bool : P Bool
  | "0" :: ts => some (false, ts)
  | "1" :: ts => some (true, ts)
  | _ => none

def parseType : P BoxType
  | [] => none
  | t :: ts =>
    if t.startsWith "u" then (parseHex (t.drop 1).toString).map fun b => (BoxType.uuid b, ts)
    else (parseHex t).map fun b => (BoxType.std b, ts)

def showType : BoxType → String
  | .std cc => toHex cc
  | .uuid id => "u" ++ toHex id

def showList (f : α → String) (l : List α) : String :=
  if l.isEmpty then "-" else joinWith "," (l.map f)

/-- `a:b:c` records inside list tokens -/
def colonNats (s : String) : Option (List Int) := (s.splitOn ":").mapM parseInt

def parseTrunSamples (s : String) : Option (List TrunSample) :=
  if s == "-" then some [] else
  (s.splitOn ",").mapM fun r => do
    match ← colonNats r with
    | [d, sz, f, c] => some { duration := d.toNat, size := sz.toNat, flags := f.toNat,
                              composition_time_offset := c }
    | _ => none

def parseSidxRefs (s : String) : Option (List SidxRef) :=
  if s == "-" then some [] else
  (s.splitOn ",").mapM fun r => do
    match ← colonNats r with
    | [a, b, c, d, e, f] => some { ref_type := a.toNat, ref_size := b.toNat, duration := c.toNat,
                                   starts_with_SAP := d.toNat, SAP_type := e.toNat,
                                   SAP_delta_time := f.toNat }
    | _ => none

/-- `ivhex/clear:enc+clear:enc` -/
def parseSencSamples (s : String) : Option (List SencSample) :=
  if s == "-" then some [] else
  (s.splitOn ",").mapM fun r => do
    match r.splitOn "/" with
    | [iv, subs] =>
      let ivb ← parseHex iv
      let ss ← if subs == "-" then some [] else
        (subs.splitOn "+").mapM fun u => do
          match ← colonNats u with
          | [c, e] => some ({ clear := c.toNat, encrypted := e.toNat } : SubSample)
          | _ => none
      some { iv := ivb, subsamples := ss }
    | _ => none

def parseEc3Subs (s : String) : Option (List Ec3Sub) :=
  if s == "-" then some [] else
  (s.splitOn ",").mapM fun r => do
    match ← colonNats r with
    | [a, b, c, d, e, f, g] =>
      some { fscod := a.toNat, bsid := b.toNat, bsmod := c.toNat, acmod := d.toNat,
             lfeon := e.toNat, num_dep_sub := f.toNat, chan_loc := g.toNat }
    | _ => none

def parseEc3Ext (s : String) : Option (Option (Nat × Nat)) :=
  if s == "-" then some none else
  match colonNats s with
  | some [f, c] => some (some (f.toNat, c.toNat))
  | _ => none

def parsePayload : P Payload
  | "mfhd" :: ts => do
    let (v, ts) ← nat ts; let (f, ts) ← nat ts; let (s, ts) ← nat ts
    some (.mfhd ⟨v, f, s⟩, ts)
  | "tfdt" :: ts => do
    let (v, ts) ← nat ts; let (f, ts) ← nat ts; let (t, ts) ← nat ts
    some (.tfdt ⟨v, f, t⟩, ts)
  | "mehd" :: ts => do
    let (v, ts) ← nat ts; let (f, ts) ← nat ts; let (t, ts) ← nat ts
    some (.mehd ⟨v, f, t⟩, ts)
  | "trex" :: ts => do
    let (v, ts) ← nat ts; let (f, ts) ← nat ts; let (a, ts) ← nat ts; let (b, ts) ← nat ts
    let (c, ts) ← nat ts; let (d, ts) ← nat ts; let (e, ts) ← nat ts
    some (.trex ⟨v, f, a, b, c, d, e⟩, ts)
  | "tenc" :: ts => do
    let (v, ts) ← nat ts; let (f, ts) ← nat ts; let (a, ts) ← nat ts; let (b, ts) ← nat ts
    let (k, ts) ← hex ts
    some (.tenc ⟨v, f, a, b, k⟩, ts)
  | "ftyp" :: ts => do
    let (m, ts) ← hex ts; let (n, ts) ← nat ts; let (bs, ts) ← hexList ts
    some (.ftyp ⟨m, n, bs⟩, ts)
  | "tfhd" :: ts => do
    let (v, ts) ← nat ts; let (f, ts) ← nat ts; let (a, ts) ← nat ts; let (b, ts) ← nat ts
    let (c, ts) ← nat ts; let (d, ts) ← nat ts; let (e, ts) ← nat ts; let (g, ts) ← nat ts
    some (.tfhd ⟨v, f, a, b, c, d, e, g⟩, ts)
  | "trun" :: ts => do
    let (v, ts) ← nat ts; let (f, ts) ← nat ts; let (n, ts) ← nat ts; let (o, ts) ← int ts
    let (g, ts) ← nat ts; let (s, ts) ← tok ts
    some (.trun ⟨v, f, n, o, g, ← parseTrunSamples s⟩, ts)
  | "saiz" :: ts => do
    let (v, ts) ← nat ts; let (f, ts) ← nat ts; let (a, ts) ← nat ts; let (b, ts) ← nat ts
    let (d, ts) ← nat ts; let (n, ts) ← nat ts; let (s, ts) ← natList ts
    some (.saiz ⟨v, f, a, b, d, n, s⟩, ts)
  | "saio" :: ts => do
    let (v, ts) ← nat ts; let (f, ts) ← nat ts; let (a, ts) ← nat ts; let (b, ts) ← nat ts
    let (o, ts) ← natList ts
    some (.saio ⟨v, f, a, b, o⟩, ts)
  | "senc" :: ts => do
    let (v, ts) ← nat ts; let (f, ts) ← nat ts; let (a, ts) ← nat ts; let (i, ts) ← nat ts
    let (k, ts) ← hex ts; let (s, ts) ← tok ts
    some (.senc ⟨v, f, a, i, k, ← parseSencSamples s⟩, ts)
  | "pssh" :: ts => do
    let (v, ts) ← nat ts; let (f, ts) ← nat ts; let (s, ts) ← hex ts; let (k, ts) ← hexList ts
    let (d, ts) ← hex ts
    some (.pssh ⟨v, f, s, k, d⟩, ts)
  | "sidx" :: ts => do
    let (v, ts) ← nat ts; let (f, ts) ← nat ts; let (a, ts) ← nat ts; let (b, ts) ← nat ts
    let (c, ts) ← nat ts; let (d, ts) ← nat ts; let (r, ts) ← tok ts
    some (.sidx ⟨v, f, a, b, c, d, ← parseSidxRefs r⟩, ts)
  | "emsg" :: ts => do
    let (v, ts) ← nat ts; let (f, ts) ← nat ts; let (s, ts) ← hex ts; let (u, ts) ← hex ts
    let (a, ts) ← nat ts; let (b, ts) ← nat ts; let (c, ts) ← nat ts; let (d, ts) ← nat ts
    let (e, ts) ← nat ts; let (x, ts) ← hex ts
    some (.emsg ⟨v, f, s, u, a, b, c, d, e, x⟩, ts)
  | "dec3" :: ts => do
    let (r, ts) ← nat ts; let (ss, ts) ← tok ts; let (e, ts) ← tok ts
    some (.dec3 ⟨r, ← parseEc3Subs ss, ← parseEc3Ext e⟩, ts)
  | "opaque" :: ts => do
    let (d, ts) ← hex ts
    some (.opaque d, ts)
  | _ => none

def sp (l : List String) : String := joinWith " " l

def showPayload : Payload → String
  | .mfhd x => sp ["mfhd", toString x.version, toString x.flags, toString x.sequence_number]
  | .tfdt x => sp ["tfdt", toString x.version, toString x.flags, toString x.base_media_decode_time]
  | .mehd x => sp ["mehd", toString x.version, toString x.flags, toString x.fragment_duration]
  | .trex x => sp ["trex", toString x.version, toString x.flags, toString x.track_id,
      toString x.default_sample_description_index, toString x.default_sample_duration,
      toString x.default_sample_size, toString x.default_sample_flags]
  | .tenc x => sp ["tenc", toString x.version, toString x.flags, toString x.is_encrypted,
      toString x.iv_size, toHex x.default_kid]
  | .ftyp x => sp ["ftyp", toHex x.major_brand, toString x.minor_version,
      showList toHex x.compatible_brands]
  | .tfhd x => sp ["tfhd", toString x.version, toString x.flags, toString x.track_id,
      toString x.base_data_offset, toString x.sample_description_index,
      toString x.default_sample_duration, toString x.default_sample_size,
      toString x.default_sample_flags]
  | .trun x => sp ["trun", toString x.version, toString x.flags, toString x.sample_count,
      toString x.data_offset, toString x.first_sample_flags,
      showList (fun s => joinWith ":" [toString s.duration, toString s.size, toString s.flags,
        toString s.composition_time_offset]) x.samples]
  | .saiz x => sp ["saiz", toString x.version, toString x.flags, toString x.aux_info_type,
      toString x.aux_info_type_parameter, toString x.default_sample_info_size,
      toString x.sample_count, showList toString x.sample_info_sizes]
  | .saio x => sp ["saio", toString x.version, toString x.flags, toString x.aux_info_type,
      toString x.aux_info_type_parameter, showList toString x.offsets]
  | .senc x => sp ["senc", toString x.version, toString x.flags, toString x.algorithm_id,
      toString x.iv_size, toHex x.kid,
      showList (fun s => toHex s.iv ++ "/" ++
        (if s.subsamples.isEmpty then "-" else
          joinWith "+" (s.subsamples.map fun u => toString u.clear ++ ":" ++ toString u.encrypted)))
        x.samples]
  | .pssh x => sp ["pssh", toString x.version, toString x.flags, toHex x.system_id,
      showList toHex x.key_ids, toHex x.data]
  | .sidx x => sp ["sidx", toString x.version, toString x.flags, toString x.reference_id,
      toString x.timescale, toString x.earliest_presentation_time, toString x.first_offset,
      showList (fun r => joinWith ":" [toString r.ref_type, toString r.ref_size,
        toString r.duration, toString r.starts_with_SAP, toString r.SAP_type,
        toString r.SAP_delta_time]) x.references]
  | .emsg x => sp ["emsg", toString x.version, toString x.flags, toHex x.scheme_id_uri,
      toHex x.value, toString x.timescale, toString x.presentation_time_delta,
      toString x.presentation_time, toString x.event_duration, toString x.event_id, toHex x.data]
  | .dec3 x => sp ["dec3", toString x.data_rate,
      showList (fun s => joinWith ":" [toString s.fscod, toString s.bsid, toString s.bsmod,
        toString s.acmod, toString s.lfeon, toString s.num_dep_sub, toString s.chan_loc]) x.substreams,
      match x.ext with
      | none => "-"
      | some (f, c) => toString f ++ ":" ++ toString c]
  | .opaque d => sp ["opaque", toHex d]

mutual
partial def parseBox : P Box
  | "N" :: ts => do
    let (t, ts) ← parseType ts; let (l, ts) ← bool ts; let (n, ts) ← nat ts
    let (cs, ts) ← parseBoxesN n ts
    some (.node t l cs, ts)
  | "L" :: ts => do
    let (t, ts) ← parseType ts; let (l, ts) ← bool ts; let (p, ts) ← parsePayload ts
    some (.leaf t l p, ts)
  | _ => none
partial def parseBoxesN : Nat → P (List Box)
  | 0, ts => some ([], ts)
  | n+1, ts => do
    let (b, ts) ← parseBox ts
    let (bs, ts) ← parseBoxesN n ts
    some (b :: bs, ts)
end

/-- a forest up to the end of the tokens or the separator `##` -/
partial def parseForest (ts : List String) : Option (List Box × List String) :=
  match ts with
  | [] => some ([], [])
  | "##" :: rest => some ([], rest)
  | _ => do
    let (b, ts) ← parseBox ts
    let (bs, ts) ← parseForest ts
    some (b :: bs, ts)

mutual
partial def showBox : Box → String
  | .leaf t l p => sp ["L", showType t, if l then "1" else "0", showPayload p]
  | .node t l cs => sp (["N", showType t, if l then "1" else "0", toString cs.length] ++
      cs.map showBox)
end

def showForest (bs : List Box) : String := if bs.isEmpty then "empty" else sp (bs.map showBox)

def parseCtx : P SencCtx
  | iv :: d :: s :: ts => do
    some ({ ivSize := ← parseNat iv, saizDefault := ← parseNat d, saizSizes := ← parseNatList s }, ts)
  | _ => none

def boxenc (args : List String) : Option String := do
  let (_, ts) ← parseCtx args
  let (f, rest) ← parseForest ts
  if !rest.isEmpty then none else
  some (toHex (encBoxes f))

def boxdec (args : List String) : Option String := do
  let (ctx, ts) ← parseCtx args
  match ts with
  | [h] =>
    let bs ← parseHex h
    some (match decFile ctx bs with
      | some f => showForest f
      | none => "none")
  | _ => none

def boxwalk : List String → Option String
  | [h] => do
    let bs ← parseHex h
    some (if walkOk bs.length bs then "ok" else "bad")
  | _ => none

def tfdtset : List String → Option String
  | [v, f, t, n] => do
    let x : Tfdt := ⟨← parseNat v, ← parseNat f, ← parseNat t⟩
    let (x', d) := tfdtAssign x (← parseNat n)
    some (sp [toString x'.version, toString x'.base_media_decode_time, toString d])
  | _ => none

/-! ### edits -/
instance : Inhabited STree := ⟨.leaf (.std []) false ⟨0, 0⟩ (.opaque [])⟩
instance : Inhabited LBox := ⟨.raw []⟩

mutual
partial def toSTree : Box → STree
  | .leaf t l p => .leaf t l ⟨0, 0⟩ p
  | .node t l cs => .node t l ⟨0, 0⟩ (cs.map toSTree)
end

/-- a tree as it is after parsing or encoding: stored attributes accurate -/
def sized (b : Box) : STree := ((toSTree b).encodeAt 0).2

def parsePath (s : String) : Option (List Nat) :=
  if s == "-" then some [] else (s.splitOn ".").mapM parseNat

/-- `A <path> <s|z> <box>` · `I <path> <idx> <s|z> <box>` · `R <path> <idx>` ·
`T <path> <v>` · `P <path> <payload>`; `s` = the child knows its size (parsed or
encoded before), `z` = built from scratch (`size == 0`) -/
partial def parseEdits (ts : List String) : Option (List Edit) :=
  match ts with
  | [] => some []
  | "A" :: p :: m :: ts => do
    let (b, ts) ← parseBox ts
    let c := if m == "s" then sized b else toSTree b
    some (.child (← parsePath p) (.append c) :: (← parseEdits ts))
  | "I" :: p :: i :: m :: ts => do
    let (b, ts) ← parseBox ts
    let c := if m == "s" then sized b else toSTree b
    some (.child (← parsePath p) (.insert (← parseNat i) c) :: (← parseEdits ts))
  | "R" :: p :: i :: ts => do
    some (.child (← parsePath p) (.remove (← parseNat i)) :: (← parseEdits ts))
  | "T" :: p :: v :: ts => do
    some (.setTfdt (← parsePath p) (← parseNat v) :: (← parseEdits ts))
  | "P" :: p :: ts => do
    let (x, ts) ← parsePayload ts
    some (.setPayload (← parsePath p) x :: (← parseEdits ts))
  | _ => none

mutual
partial def sizesOf : STree → List String
  | .leaf _ _ m _ => [toString m.size]
  | .node _ _ m cs => toString m.size :: (cs.map sizesOf).flatten
end
mutual
partial def metasOf : STree → List String
  | .leaf _ _ m _ => [toString m.size ++ ":" ++ toString m.position]
  | .node _ _ m cs => (toString m.size ++ ":" ++ toString m.position) :: (cs.map metasOf).flatten
end

/-- the file is one top-level box (`Mp4Atom.load(...)[0]`); edits address boxes inside it -/
def boxedit (args : List String) : Option String := do
  let (ctx, ts) ← parseCtx args
  match ts with
  | h :: ets =>
    let bs ← parseHex h
    match decFile ctx bs with
    | some [root] =>
      let es ← parseEdits ets
      let t := applyEdits (sized root) es
      let (out, t') := t.encodeAt 0
      some (sp [joinWith "," (sizesOf t), joinWith "," (metasOf t'), toHex out,
                showBox t.erase])
    | _ => some "none"
  | _ => none

/-! ### lazy loading -/
mutual
/-- load the sub-trees on the listed paths (and their ancestors), keep the rest raw -/
partial def lazify (paths : List (List Nat)) (here : List Nat) (b : Box) : LBox :=
  if !(paths.any fun p => here.isPrefixOf p) then .raw (encBox b) else
  match b with
  | .leaf t l p => .leaf t l p
  | .node t l cs => .node t l ((cs.zipIdx).map fun (c, i) => lazify paths (here ++ [i]) c)
end

def boxlazy (args : List String) : Option String := do
  let (ctx, ts) ← parseCtx args
  match ts with
  | [h, ps] =>
    let bs ← parseHex h
    let paths ← if ps == "-" then some [] else (ps.splitOn ",").mapM parsePath
    match decFile ctx bs with
    | some [root] =>
      let lt := lazify paths [] root
      let same := match force ctx lt with
        | some x => showBox x == showBox root
        | none => false
      some (sp [toHex (encL lt), if same then "same" else "differs"])
    | _ => some "none"
  | _ => none

def channels : List (String × (List String → Option String)) :=
  [("boxenc", boxenc), ("boxdec", boxdec), ("boxwalk", boxwalk), ("tfdtset", tfdtset),
   ("boxedit", boxedit), ("boxlazy", boxlazy)]

end DashLive.Driver.Box
