import DashLive.Model.Options
import DashLive.Gen.Options
import DashLive.Gen.Manifests
import DashLive.Driver.Util
/-! Channels for the option model (C07).

Text is passed as hex of its UTF-8 bytes (`-` = empty).  A value (`Val`) is
written as a *valspec*:
`N` | `B0`/`B1` | `I<int>` | `F<tenths>` | `S<hex>` | `L<hex>,<hex>…` (`L` = `[]`) |
`D<namehex>/<mask>,…` (mask: cenc=1 moov=2 pro=4) | `A<hex>` (date-time text) |
`E<code>/n<int>|t<hex>|-,…`.

* `optfrom <kind> <hex>`            → valspec | `!valueError` | `!keyError`
* `optto <kind> <valspec>`          → `N` (Python None) | `T<hex>`
* `optgen <use|-> <excl,…|-> <0|1> <defaults> <opts>` → `key=N|T<hex>;…` (table order)
   (`defaults`/`opts`: `i@valspec;…` over the rows of the generated table, `-` = none)
* `optquery <key=N|T<hex>;…|->`     → hex of `dict_to_cgi_params`
* `optparse <hexquery>`             → `khex=vhex;…` (`parse_qsl` then first value per key)
* `optmediaquery <use> <defaults> <opts> <overrides key=T<hex>;…|->` → hex
* `optmedia <defaults> <hexurl>`    → `i@valspec;…` for every row | `!valueError`
* `optserve <manifest key> <modehex> <defaults> <khex=vhex;…|->` → `i@valspec;…` of the fields
   `ServeManifest.get` hands to `ManifestContext` | `!invalidOptions` | `!patchNeedsTimeline`
* `optreqquery <manifest key> <modehex> <use> <defaults> <args> <overrides>` → hex of the query string on
   the URLs of media type `use`, computed from the *request* (restrictions, features, check, filters) | refusal
* `optcalc <modehex> <defaults> <khex=vhex;…|->` → `calculate_options(mode, args, stream)` of a media
   handler (with `check_option_values`): `i@valspec;…` | `!valueError`

The date-time codec of the driver: a value is its canonical ISO text (what
`to_iso_datetime` prints); `parse` accepts exactly canonical text
(`YYYY-MM-DDTHH:MM:SS[.ffffff](Z|±HH:MM)` with valid ranges, or `HH:MM:SSZ`).
-/
namespace DashLive.Driver.Options
open DashLive.Driver DashLive.Options

/-! ### the driver's date-time codec -/

def twoDigits (a b : UInt8) : Option Nat :=
  if isDigit a && isDigit b then some (digitVal a * 10 + digitVal b) else none

def isLeap (y : Nat) : Bool := (y % 4 == 0 && y % 100 != 0) || y % 400 == 0

def daysIn (y m : Nat) : Nat :=
  if m == 2 then (if isLeap y then 29 else 28)
  else if m == 4 || m == 6 || m == 9 || m == 11 then 30 else 31

def hmsOk (s : Bytes) : Bool :=
  match s with
  | [h1, h2, c1, m1, m2, c2, s1, s2] =>
    c1 == 58 && c2 == 58 &&
    (match twoDigits h1 h2, twoDigits m1 m2, twoDigits s1 s2 with
     | some h, some m, some s => h < 24 && m < 60 && s < 60
     | _, _, _ => false)
  | _ => false

def tzOk (s : Bytes) : Bool :=
  if s == [90] || s == [] then true     -- `[]`: a date-time without zone (naive)
  else match s with
    | [sg, h1, h2, c, m1, m2] =>
      (sg == 43 || sg == 45) && c == 58 &&
      (match twoDigits h1 h2, twoDigits m1 m2 with
       | some h, some m => h < 24 && m < 60 && !(h == 0 && m == 0)
       | _, _ => false)
    | _ => false

def fracOk (s : Bytes) : Bool :=
  s == [] || (s.length == 7 && s.head? == some 46 && (s.drop 1).all isDigit && (s.drop 1).any (· != 48))

def dateOk (s : Bytes) : Bool :=
  match s with
  | [y1, y2, y3, y4, d1, m1, m2, d2, a1, a2] =>
    d1 == 45 && d2 == 45 &&
    (match twoDigits y1 y2, twoDigits y3 y4, twoDigits m1 m2, twoDigits a1 a2 with
     | some yh, some yl, some m, some d =>
       let y := yh * 100 + yl
       1 ≤ y && 1 ≤ m && m ≤ 12 && 1 ≤ d && d ≤ daysIn y m
     | _, _, _, _ => false)
  | _ => false

def canonicalIso (s : Bytes) : Bool :=
  if s.length == 9 then hmsOk (s.take 8) && s.drop 8 == [90]
  else
    let date := s.take 10
    let rest := s.drop 10
    dateOk date && rest.head? == some 84 &&
    (let t := rest.drop 1
     let hms := t.take 8
     let tail := t.drop 8
     let frac := if tail.head? == some 46 then tail.take 7 else []
     let tz := tail.drop frac.length
     hmsOk hms && fracOk frac && tzOk tz)

/-- does the canonical text carry a zone? (`Z` or `±HH:MM` at the end) -/
def hasZone (s : Bytes) : Bool :=
  s.getLast? == some 90 || (s.length ≥ 6 && ((s.drop (s.length - 6)).head? == some 43 ||
    (s.drop (s.length - 6)).head? == some 45) && s.length > 19)

def codec : DTCodec Bytes where
  parse := fun s => if canonicalIso s then some s else none
  render := fun d => if d.length == 9 || hasZone d then d else d ++ [90]   -- to_iso_datetime adds Z to a naive value
  check := fun d =>
    if d.length == 9 then none                 -- a time of day is not a point in time
    else if hasZone d then some d else some (d ++ [90])

/-! ### valspec -/

def parseKind (s : String) : Option Kind :=
  match s.splitOn ":" with
  | ["bool"] => some .bool
  | ["intOrNone"] => some .intOrNone
  | ["floatOrNone"] => some .floatOrNone
  | ["strOrNone"] => some .strOrNone
  | ["strRaw"] => some .strRaw
  | ["listJoin"] => some .listJoin
  | ["drmSelection"] => some .drmSelection
  | ["quotedUrl"] => some .quotedUrl
  | ["astDateTime"] => some .astDateTime
  | ["dtOrNone"] => some .dtOrNone
  | ["errorList"] => some .errorList
  | ["intOrDefault", k] => (parseInt k).map .intOrDefault
  | ["posIntOrDefault", k] => (parseInt k).map .posIntOrDefault
  | _ => none

def showLoc (l : LocSet) : String :=
  toString ((if l.cenc then 1 else 0) + (if l.moov then 2 else 0) + (if l.pro then 4 else 0))

def showPos : Pos Bytes → String
  | .num z => s!"n{z}"
  | .at d => s!"t{toHex d}"
  | .nothing => "-"

def showVal : Val Bytes → String
  | .none => "N"
  | .bool b => if b then "B1" else "B0"
  | .int z => s!"I{z}"
  | .tenths t => s!"F{t}"
  | .str s => s!"S{toHex s}"
  | .list l => "L" ++ joinWith "," (l.map toHex)
  | .drm l => "D" ++ joinWith "," (l.map fun e => s!"{toHex e.1}/{showLoc e.2}")
  | .dt d => s!"A{toHex d}"
  | .errs l => "E" ++ joinWith "," (l.map fun e => s!"{e.1}/{showPos e.2}")

def parseLoc (s : String) : Option LocSet := do
  let n ← parseNat s
  if n > 7 then none else some ⟨n % 2 == 1, (n / 2) % 2 == 1, (n / 4) % 2 == 1⟩

def parsePos (s : String) : Option (Pos Bytes) :=
  if s == "-" then some .nothing
  else if s.startsWith "n" then (parseInt (s.drop 1).toString).map .num
  else if s.startsWith "t" then (parseHex (s.drop 1).toString).map .at
  else none

def items (s : String) : List String := if s == "" then [] else s.splitOn ","

def parseVal (s : String) : Option (Val Bytes) :=
  let body := (s.drop 1).toString
  match s.front with
  | 'N' => if body == "" then some .none else none
  | 'B' => if body == "1" then some (.bool true) else if body == "0" then some (.bool false) else none
  | 'I' => (parseInt body).map .int
  | 'F' => (parseNat body).map .tenths
  | 'S' => (parseHex body).map .str
  | 'L' => ((items body).mapM parseHex).map .list
  | 'D' => ((items body).mapM fun (e : String) =>
      match e.splitOn "/" with
      | [n, m] => do some ((← parseHex n), (← parseLoc m))
      | _ => none).map .drm
  | 'A' => (parseHex body).map .dt
  | 'E' => ((items body).mapM fun (e : String) =>
      match e.splitOn "/" with
      | [c, p] => do some ((← parseInt c), (← parsePos p))
      | _ => none).map .errs
  | _ => none

def showErr : Err → String
  | .valueError => "!valueError"
  | .keyError => "!keyError"

def showText : Option Bytes → String
  | none => "N"
  | some t => s!"T{toHex t}"

def parseText (s : String) : Option (Option Bytes) :=
  if s == "N" then some none
  else if s.startsWith "T" then (parseHex (s.drop 1).toString).map some
  else none

/-- `i@valspec;…` → partial assignment -/
def parseAssign (s : String) : Option (List (Nat × Val Bytes)) :=
  if s == "-" then some []
  else (s.splitOn ";").mapM fun e =>
    match e.splitOn "@" with
    | [i, v] => do some ((← parseNat i), (← parseVal v))
    | _ => none

def optsOf (l : List (Nat × Val Bytes)) : Opts Bytes := fun i => l.lookup i

def showParams (ps : List (String × Option Bytes)) : String :=
  if ps.isEmpty then "-" else joinWith ";" (ps.map fun p => s!"{p.1}={showText p.2}")

def parseParams (s : String) : Option (List (String × Option Bytes)) :=
  if s == "-" then some []
  else (s.splitOn ";").mapM fun e =>
    match e.splitOn "=" with
    | [k, v] => do some (k, (← parseText v))
    | _ => none

def table := DashLive.Gen.Options.table

/-! ### channels -/

def optfrom : List String → Option String
  | [k, h] => do
    let kind ← parseKind k
    let s ← parseHex h
    match fromString codec kind s with
    | .ok v => some (showVal v)
    | .error e => some (showErr e)
  | _ => none

def optto : List String → Option String
  | [k, v] => do
    let kind ← parseKind k
    let val ← parseVal v
    some (showText (toText codec kind val))
  | _ => none

def parseUse (s : String) : Option (Option Nat) :=
  if s == "-" then some none else (parseNat s).map some

def optgen : List String → Option String
  | [use, excl, rd, dflt, opts] => do
    let u ← parseUse use
    let ex := if excl == "-" then [] else excl.splitOn ","
    let r ← if rd == "1" then some true else if rd == "0" then some false else none
    let d ← parseAssign dflt
    let o ← parseAssign opts
    some (showParams (genParams codec table u ex r (optsOf d) (optsOf o)))
  | _ => none

def optquery : List String → Option String
  | [ps] => do
    let p ← parseParams ps
    some (toHex (renderQuery p))
  | _ => none

def optparse : List String → Option String
  | [q] => do
    let b ← parseHex q
    let ps := firstOnly (parseQsl b)
    some (if ps.isEmpty then "-" else joinWith ";" (ps.map fun p => s!"{toHex p.1}={toHex p.2}"))
  | _ => none

def optmediaquery : List String → Option String
  | [use, dflt, opts, ovs] => do
    let u ← parseNat use
    let d ← parseAssign dflt
    let o ← parseAssign opts
    let ov ← parseParams ovs
    let ov' ← ov.mapM fun p => p.2.map (p.1, ·)
    some (toHex (mediaQuery codec table u (optsOf d) (optsOf o) ov'))
  | _ => none

def optmedia : List String → Option String
  | [dflt, url] => do
    let d ← parseAssign dflt
    let u ← parseHex url
    let dv : Nat → Val Bytes := fun i => (d.lookup i).getD .none
    match mediaOptions codec table dv u with
    | .error e => some (showErr e)
    | .ok r => some (joinWith ";" ((List.range table.length).map fun i => s!"{i}@{showVal (r i)}"))
  | _ => none

def parseArgs (s : String) : Option (List (Bytes × Bytes)) :=
  if s == "-" then some []
  else (s.splitOn ";").mapM fun (e : String) =>
    match e.splitOn "=" with
    | [k, v] => do some ((← parseHex k), (← parseHex v))
    | _ => none

def K := DashLive.Gen.Manifests.filters

def optserve : List String → Option String
  | [key, mode, dflt, args] => do
    let m ← DashLive.Gen.Manifests.manifests.find? (·.key == key)
    let md ← parseHex mode
    let d ← parseAssign dflt
    let a ← parseArgs args
    let dv : Nat → Val Bytes := fun i => (d.lookup i).getD .none
    match serveManifestOptions codec K table m md (firstOnly a) dv with
    | .error .invalidOptions => some "!invalidOptions"
    | .error .patchNeedsTimeline => some "!patchNeedsTimeline"
    | .ok o =>
      let items := (List.range table.length).filterMap fun i => (o i).map fun v => s!"{i}@{showVal v}"
      some (if items.isEmpty then "-" else joinWith ";" items)
  | _ => none

def optreqquery : List String → Option String
  | [key, mode, use, dflt, args, ovs] => do
    let m ← DashLive.Gen.Manifests.manifests.find? (·.key == key)
    let md ← parseHex mode
    let u ← parseNat use
    let d ← parseAssign dflt
    let a ← parseArgs args
    let ov ← parseParams ovs
    let ov' ← ov.mapM fun p => p.2.map (p.1, ·)
    let dv : Nat → Val Bytes := fun i => (d.lookup i).getD .none
    match requestMediaQuery codec K table m md (firstOnly a) dv none u ov' with
    | .error .invalidOptions => some "!invalidOptions"
    | .error .patchNeedsTimeline => some "!patchNeedsTimeline"
    | .ok q => some (toHex q)
  | _ => none

def optcalc : List String → Option String
  | [mode, dflt, args] => do
    let md ← parseHex mode
    let d ← parseAssign dflt
    let a ← parseArgs args
    let dv : Nat → Val Bytes := fun i => (d.lookup i).getD .none
    match calculateOptions codec K table md (firstOnly a) dv none none with
    | .error e => some (showErr e)
    | .ok r => some (joinWith ";" ((List.range table.length).map fun i => s!"{i}@{showVal (r i)}"))
  | _ => none

def channels : List (String × (List String → Option String)) :=
  [("optserve", optserve), ("optreqquery", optreqquery), ("optcalc", optcalc), ("optfrom", optfrom), ("optto", optto), ("optgen", optgen), ("optquery", optquery),
   ("optparse", optparse), ("optmediaquery", optmediaquery), ("optmedia", optmedia)]

end DashLive.Driver.Options
