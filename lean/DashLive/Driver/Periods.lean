import DashLive.Model.Periods
import DashLive.Driver.Util
/-! Line-protocol channels of `Model/Periods.lean` (C12).

* `vodperiods <defs>` → `<id>:<start>:<dur>;…|<mediaDuration>`   (`-` for an empty list)
* `liveperiods <defs> <E_us> <F_us>` → `ok <nl> <id>:<start>:<dur>;…` | `zerodiv` | `toomany` | `diverges`
  (`nl` = the loop count, evaluated the way CPython evaluates
  `int(F.total_seconds() // D.total_seconds())`: the exact floor of the quotient of the two
  doubles `F/10⁶` and `D/10⁶` – e.g. `0.3 // 0.1 = 2` – and fed to `livePeriodsFrom`)
* `mpsreq <durs> <R> <sn> <ts> <refTs> <start_us> <stored|-> n|t <value>` →
  `seg <src0> <tfdt> <seq>` | `404` | `500`
* `mpstimeline <durs> <R> <ts> <refTs> <start_us> <dur_us>` → `t:d:count;…` (`-` = empty): the
  `<S>` list of a Period (`dur_us` = the stored duration; the model presents it rounded to ms)

`vodperiods` / `liveperiods` take the *stored* definitions and apply `presented` (the
millisecond rounding of `Period.presentation_duration`) as the builders do.

`<defs>` = `pid:dur_us,pid:dur_us,…` (`-` = no periods).  `<stored>` = the stored `tfdt` of
every media segment (comma separated) or `-` when the file has no `tfdt` boxes.
`mpsreq` evaluates the one float step of the handler that is a *parameter* of the model,
`int(floor(period.start.total_seconds() * timing_ref.timescale))`, with IEEE doubles exactly
as the Python does (`us / 10⁶` correctly rounded, times the timescale, floor). -/
namespace DashLive.Driver.Periods
open DashLive.Driver DashLive.Segments DashLive.Periods

def parseDefs (s : String) : Option (List PeriodDef) :=
  if s == "-" then some [] else
  (s.splitOn ",").mapM fun item =>
    match item.splitOn ":" with
    | [pid, dur] => (parseNat dur).map fun d => { pid := pid.toList, dur := d }
    | _ => none

def showPeriods (l : List OutPeriod) : String :=
  if l.isEmpty then "-" else
  joinWith ";" (l.map fun p => String.ofList p.id ++ ":" ++ toString p.start ++ ":" ++ toString p.dur)

def vodperiods : List String → Option String
  | [defs] => do
    let ps ← parseDefs defs
    let ps := presented ps
    some (showPeriods (vodPeriods ps) ++ "|" ++ toString (vodMediaDuration ps))
  | _ => none

/-- a finite non-negative double as `m · 2^e` -/
def ratParts (a : Float) : Nat × Int :=
  let b := a.toBits.toNat
  let ex : Nat := (b / 2 ^ 52) % 2048
  let fr : Nat := b % 2 ^ 52
  if ex = 0 then (fr, -1074) else (fr + 2 ^ 52, (ex : Int) - 1075)

/-- CPython's `a // b` for doubles `a ≥ 0`, `b > 0` with a quotient below 2⁵³: the exact floor
of the quotient of the two doubles -/
def floatFloorDiv (a b : Float) : Nat :=
  let (m1, e1) := ratParts a
  let (m2, e2) := ratParts b
  if e1 ≥ e2 then (m1 * 2 ^ (e1 - e2).toNat) / m2 else m1 / (m2 * 2 ^ (e2 - e1).toNat)

/-- `int(F.total_seconds() // D.total_seconds())` -/
def floatLoopCount (F D : Nat) : Nat :=
  floatFloorDiv (Float.ofNat F / 1000000.0) (Float.ofNat D / 1000000.0)

def liveperiods : List String → Option String
  | [defs, e, f] => do
    let ps ← parseDefs defs
    let E ← parseNat e
    let F ← parseNat f
    let ps := presented ps
    if totalDuration ps = 0 then some "zerodiv" else
    let nl := floatLoopCount F (totalDuration ps)
    -- `int((elapsedTime - start).total_seconds() // duration.total_seconds())`, start = D·nl ≤ F ≤ E
    let cnt := floatLoopCount (E - totalDuration ps * nl) (totalDuration ps)
    match livePeriodsGuarded ps E F nl cnt with
    | .ok l => some (s!"ok {nl} " ++ showPeriods l)
    | .zeroDivision => some "zerodiv"
    | .tooMany => some "toomany"
    | .diverges => some "diverges"
  | _ => none

/-- `int(math.floor(td.total_seconds() * timescale))` for a non-negative `td` of `us` µs -/
def floatStartRef (us refTs : Nat) : Nat :=
  (Float.floor (Float.ofNat us / 1000000.0 * Float.ofNat refTs)).toUInt64.toNat

def showServed : Served → String
  | .segment src tfdt seq => s!"seg {src} {tfdt} {seq}"
  | .notFound => "404"
  | .crash => "500"

def mpsreq : List String → Option String
  | [durs, r, sn, ts, refTs, us, stored, k, v] => do
    let d ← parseNatList durs
    let R ← parseNat r
    let sn ← parseNat sn
    let ts ← parseNat ts
    let refTs ← parseNat refTs
    let us ← parseNat us
    let st : Option (Nat → Nat) ←
      if stored == "-" then some none
      else (parseNatList stored).map fun l => some (fun j => l.getD j 0)
    let rq ← match k with
      | "t" => (parseNat v).map Req.time
      | "n" => (parseInt v).map Req.number
      | _ => none
    if R = 0 ∨ d.isEmpty ∨ refTs = 0 then none else
    let tc := mpsStartTc (floatStartRef us refTs) ts refTs
    some (showServed (mpsRequest d st R sn tc rq))
  | _ => none

def showNodes (l : List SNode) : String :=
  if l.isEmpty then "-" else
  joinWith ";" (l.map fun s =>
    (match s.start with | some t => toString t | none => "-") ++ ":" ++
    (match s.dur with | some d => toString d | none => "-") ++ ":" ++ toString s.count)

def mpstimeline : List String → Option String
  | [durs, r, ts, refTs, us, dur] => do
    let d ← parseNatList durs
    let R ← parseNat r
    let ts ← parseNat ts
    let refTs ← parseNat refTs
    let us ← parseNat us
    let dur ← parseNat dur
    if R = 0 ∨ d.isEmpty ∨ refTs = 0 then none else
    let tc := mpsStartTc (floatStartRef us refTs) ts refTs
    some (showNodes (periodTimeline d R ts tc (quantise dur)))
  | _ => none

def channels : List (String × (List String → Option String)) :=
  [("vodperiods", vodperiods), ("liveperiods", liveperiods), ("mpsreq", mpsreq), ("mpstimeline", mpstimeline)]

end DashLive.Driver.Periods
