import DashLive.Model.Periods
import DashLive.Driver.Util
/-! Line-protocol channels of `Model/Periods.lean` (C12).

* `vodperiods <defs>` → `<id>:<start>:<dur>;…|<mediaDuration>`   (`-` for an empty list)
* `liveperiods <defs> <E_us> <F_us>` → `ok <id>:<start>:<dur>;…` | `zerodiv` | `diverges`
* `mpsreq <durs> <R> <sn> <ts> <refTs> <start_us> <stored|-> n|t <value>` →
  `seg <src0> <tfdt> <seq>` | `404` | `500`

`<defs>` = `pid:dur_us,pid:dur_us,…` (`-` = no periods).  `<stored>` = the stored `tfdt` of
every media segment (comma separated) or `-` when the file has no `tfdt` boxes.
`mpsreq` evaluates the one float step of the handler that is a *parameter* of the model,
`int(floor(period.start.total_seconds() * timing_ref.timescale))`, with IEEE doubles exactly
as the Python does (`us / 10⁶` correctly rounded, times the timescale, floor). -/
namespace DashLive.Driver.Periods
open DashLive.Driver DashLive.Segments DashLive.Periods

def parseDefs (s : String) : Option (List PeriodDef) :=
  if s == "-" then some [] else
  (s.splitOn ",").mapM fun item =>
    match item.splitOn ":" with
    | [pid, dur] => (parseNat dur).map fun d => { pid := pid.toList, dur := d }
    | _ => none

def showPeriods (l : List OutPeriod) : String :=
  if l.isEmpty then "-" else
  joinWith ";" (l.map fun p => String.ofList p.id ++ ":" ++ toString p.start ++ ":" ++ toString p.dur)

def vodperiods : List String → Option String
  | [defs] => do
    let ps ← parseDefs defs
    some (showPeriods (vodPeriods ps) ++ "|" ++ toString (vodMediaDuration ps))
  | _ => none

def liveperiods : List String → Option String
  | [defs, e, f] => do
    let ps ← parseDefs defs
    let E ← parseNat e
    let F ← parseNat f
    match livePeriods ps E F with
    | .ok l => some ("ok " ++ showPeriods l)
    | .zeroDivision => some "zerodiv"
    | .diverges => some "diverges"
  | _ => none

/-- `int(math.floor(td.total_seconds() * timescale))` for a non-negative `td` of `us` µs -/
def floatStartRef (us refTs : Nat) : Nat :=
  (Float.floor (Float.ofNat us / 1000000.0 * Float.ofNat refTs)).toUInt64.toNat

def showServed : Served → String
  | .segment src tfdt seq => s!"seg {src} {tfdt} {seq}"
  | .notFound => "404"
  | .crash => "500"

def mpsreq : List String → Option String
  | [durs, r, sn, ts, refTs, us, stored, k, v] => do
    let d ← parseNatList durs
    let R ← parseNat r
    let sn ← parseNat sn
    let ts ← parseNat ts
    let refTs ← parseNat refTs
    let us ← parseNat us
    let st : Option (Nat → Nat) ←
      if stored == "-" then some none
      else (parseNatList stored).map fun l => some (fun j => l.getD j 0)
    let rq ← match k with
      | "t" => (parseNat v).map Req.time
      | "n" => (parseInt v).map Req.number
      | _ => none
    if R = 0 ∨ d.isEmpty ∨ refTs = 0 then none else
    let tc := mpsStartTc (floatStartRef us refTs) ts refTs
    some (showServed (mpsRequest d st R sn tc rq))
  | _ => none

def channels : List (String × (List String → Option String)) :=
  [("vodperiods", vodperiods), ("liveperiods", liveperiods), ("mpsreq", mpsreq)]

end DashLive.Driver.Periods
