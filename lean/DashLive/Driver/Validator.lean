import DashLive.Model.Validator
import DashLive.Driver.Util
/-! Line-protocol channels of the validator model (C18).

Tokens (no blanks inside a token; `-` = absent / empty):
* ctx  `video,optEnc,infoEnc,ivKnown,hasMoov,dashTs,mediaTs|-,startNumber,tmplDuration|-,ranged,hasTrex` (booleans 0/1)
* exp  `expSeq|-,expDecode|-,expDur|-,tol,pto`
* obs  `status,ctypeOk,nAtoms,hasMoof,hasMdat,emsgOk,seq,tfdt,base,dataOffset,mdatPos,mdatHdr,mdatSize,needsTrex;samples;senc;saio`
       samples `size:dur:cto/…` or `-`; senc `pos:off:count` or `-`; saio `none` or comma list or `-` (empty)
* channels
  `vseg <ctx> <exp> <obs>` → error kinds joined by `,` (or `-`)
  `vrep <ctx> <need|-> <seg>…` with seg = `<exp>|<validated>|<seq|-,dur|-,next|->|<N|X|V|F<obs>>`
        → per segment `expSeq|-,expDecode|-,validated,seq|-,dur|-,next|-:errs`
  `vtl <S>…` with S = `t|-,d|-,r` → `t:d/t:d… errs`
  `vgentl live,audio,numberInMedia,pto,startNumber,segDuration,dashTs,frNum,frDen,need|- <t:d/…>` → `num,expSeq|-,expDecode,expDur,tol/…`
  `vtldepth live,targetUs|-,tsbdUs,dashTs <t:d/…>` → `timelineShort` or `-`
  `vwin ts,sd,startNumber,pto,tsbdUs,nowUs,astUs,segDurUs` → `start,n` or `none`
  `vavail periodAstUs,tsbdUs,ts,pto,startNumber,segDur,nowUs <exp>` → `startUs stopUs N|X|F`
  `vtol audio,ts,frNum,frDen,n` → tolerances of the first n template segments
  `vinit hasUrl,status,ranged,video <top,…|-> <moov,…|->` → `<load errors> <loaded 0|1> <validate errors if loaded> <errors when every request gets this response>`
  `vmpd <doc>` → located errors (see `parseDoc`)
  `vrefresh idEqual,prevAst|-,ast|-,prevPublish,publish,mup|-` → errors
-/
namespace DashLive.Driver.Validator
open DashLive.Driver DashLive.Validator

def optInt (s : String) : Option (Option Int) := if s == "-" then some none else (parseInt s).map some
def optNat (s : String) : Option (Option Nat) := if s == "-" then some none else (parseNat s).map some
def pBool (s : String) : Option Bool := if s == "1" then some true else if s == "0" then some false else none

def showOptInt : Option Int → String
  | none => "-"
  | some v => toString v
def showOptNat : Option Nat → String
  | none => "-"
  | some v => toString v
def showBool (b : Bool) : String := if b then "1" else "0"

def segErrName : SegErr → String
  | .status => "status" | .contentType => "contentType" | .encryption => "encryption"
  | .ivSize => "ivSize" | .atomCount => "atomCount" | .moofMissing => "moofMissing"
  | .mdatMissing => "mdatMissing" | .emsg => "emsg" | .trunFirst => "trunFirst"
  | .trunLast => "trunLast" | .noMoof => "noMoof" | .sencMissing => "sencMissing"
  | .saioMissing => "saioMissing" | .saioCount => "saioCount" | .saioOffset => "saioOffset"
  | .sencCount => "sencCount" | .sencInClear => "sencInClear" | .seqNum => "seqNum"
  | .decodeTime => "decodeTime" | .moovMissing => "moovMissing" | .trexMissing => "trexMissing"
  | .ptsNegative => "ptsNegative"
  | .ptsDuplicate => "ptsDuplicate" | .zeroTimescale => "zeroTimescale" | .duration => "duration"
  | .chain => "chain"

def showList (l : List String) : String := if l.isEmpty then "-" else joinWith "," l

def parseCtx (s : String) : Option RepCtx :=
  match s.splitOn "," with
  | [v, oe, ie, iv, mv, dts, mts, sn, td, rg, tx] => do
    some { video := ← pBool v, optEncrypted := ← pBool oe, infoEncrypted := ← pBool ie,
           ivKnown := ← pBool iv, hasMoov := ← pBool mv, dashTs := ← parseNat dts,
           mediaTs := ← optNat mts, startNumber := ← parseInt sn, tmplDuration := ← optNat td,
           ranged := ← pBool rg, hasTrex := ← pBool tx }
  | _ => none

def parseExp (s : String) : Option SegExp :=
  match s.splitOn "," with
  | [a, b, c, d, e] => do
    some { expSeq := ← optInt a, expDecode := ← optInt b, expDur := ← optNat c,
           tol := ← parseNat d, pto := ← parseInt e }
  | _ => none

def parseSample (s : String) : Option Sample :=
  match s.splitOn ":" with
  | [a, b, c] => do some { size := ← parseNat a, dur := ← parseNat b, cto := ← parseInt c }
  | _ => none

def parseObs (s : String) : Option SegObs :=
  match s.splitOn ";" with
  | [hd, smp, senc, saio] =>
    match hd.splitOn "," with
    | [st, ct, na, mf, md, em, sq, tf, bs, dof, mp, mh, ms, nt] => do
      let samples ← if smp == "-" then some [] else (smp.splitOn "/").mapM parseSample
      let sencV : Option (Nat × Nat × Nat) ← if senc == "-" then some none else
        match senc.splitOn ":" with
        | [a, b, c] => do some (some (← parseNat a, ← parseNat b, ← parseNat c))
        | _ => none
      let saioV : Option (List Nat) ← if saio == "none" then some none else (parseNatList saio).map some
      some { status := ← parseNat st, ctypeOk := ← pBool ct, nAtoms := ← parseNat na,
             hasMoof := ← pBool mf, hasMdat := ← pBool md, emsgOk := ← pBool em,
             seq := ← parseNat sq, tfdt := ← parseNat tf, baseDataOffset := ← parseInt bs,
             dataOffset := ← parseInt dof, samples := samples, mdatPos := ← parseNat mp,
             mdatHdr := ← parseNat mh, mdatSize := ← parseNat ms, senc := sencV, saio := saioV,
             needsTrex := ← pBool nt }
    | _ => none
  | _ => none

def vseg : List String → Option String
  | [c, e, o] => do
    some (showList ((validateSegment (← parseCtx c) (← parseExp e) (← parseObs o)).map segErrName))
  | _ => none

def parseRes (s : String) : Option SegRes :=
  match s.splitOn "," with
  | [a, b, c] => do some { seq := ← optNat a, duration := ← optNat b, nextDecode := ← optInt c }
  | _ => none

def parseSeg (s : String) : Option (SegState × Outcome) :=
  match s.splitOn "|" with
  | [e, v, r, oc] => do
    let st : SegState := { exp := ← parseExp e, validated := ← pBool v, res := ← parseRes r }
    let out : Outcome ← if oc == "N" then some Outcome.notYet
      else if oc == "X" || oc == "V" then some Outcome.expired
      else if oc.startsWith "F" then (parseObs (oc.drop 1).toString).map Outcome.fetched
      else none
    some (st, out)
  | _ => none

def showSeg (p : SegState × List SegErr) : String :=
  let s := p.1
  joinWith "," [showOptInt s.exp.expSeq, showOptInt s.exp.expDecode, showBool s.validated,
    showOptNat s.res.seq, showOptNat s.res.duration, showOptInt s.res.nextDecode]
  ++ ":" ++ showList (p.2.map segErrName)

def vrep : List String → Option String
  | c :: need :: segs => do
    let l ← segs.mapM parseSeg
    some (joinWith " " ((repPass (← parseCtx c) (← optNat need) l).map showSeg) |> fun s => if s.isEmpty then "-" else s)
  | _ => none

def parseS (s : String) : Option SElem :=
  match s.splitOn "," with
  | [t, d, r] => do some { t := ← optInt t, d := ← optInt d, r := ← parseInt r }
  | _ => none

def tlErrName : TlErr → String
  | .missingD => "missingD" | .missingStart => "missingStart"

def showEntries (l : List (Int × Int)) : String :=
  if l.isEmpty then "-" else joinWith "/" (l.map fun p => toString p.1 ++ ":" ++ toString p.2)

def vtl (args : List String) : Option String := do
  let l ← args.mapM parseS
  let r := tlExpand none l
  some (showEntries r.1 ++ " " ++ showList (r.2.map tlErrName))

def parseEntries (s : String) : Option (List (Int × Int)) :=
  if s == "-" then some [] else
  (s.splitOn "/").mapM fun e => match e.splitOn ":" with
    | [a, b] => do some (← parseInt a, ← parseInt b)
    | _ => none

def vgentl : List String → Option String
  | [cfg, ent] =>
    match cfg.splitOn "," with
    | [lv, au, nm, pto, sn, sd, ts, fn, fd, need] => do
      let r := genTimeline (← pBool lv) (← pBool au) (← pBool nm) (← parseInt pto) (← parseInt sn)
        (← parseInt sd) (← parseNat ts) (← parseNat fn) (← parseNat fd) (← optInt need) (← parseEntries ent)
      some (if r.isEmpty then "-" else joinWith "/" (r.map fun p =>
        joinWith "," [toString p.1, showOptInt p.2.expSeq, showOptInt p.2.expDecode,
                      showOptNat p.2.expDur, toString p.2.tol]))
    | _ => none
  | _ => none

def vtldepth : List String → Option String
  | [cfg, ent] =>
    match cfg.splitOn "," with
    | [lv, tg, tsbd, ts] => do
      let r := timelineDepthErrs (← pBool lv) (← optInt tg) (← parseInt tsbd) (← parseNat ts) (← parseEntries ent)
      some (if r.isEmpty then "-" else "timelineShort")
    | _ => none
  | _ => none

def vavail : List String → Option String
  | [cfg, e] =>
    match cfg.splitOn "," with
    | [ast, tsbd, ts, pto, sn, sd, now] => do
      let tsv ← parseNat ts
      if tsv = 0 then none else
      let a := segmentAvailability (← parseInt ast) (← parseInt tsbd) tsv (← parseInt pto) (← parseInt sn)
        (← parseInt sd) (← parseExp e)
      let d := match availDecision (← parseInt now) (some a) with
        | .notYet => "N" | .expired => "X" | .fetch => "F"
      some (joinWith " " [toString a.start, toString a.stop, d])
    | _ => none
  | _ => none

def vwin : List String → Option String
  | [cfg] =>
    match cfg.splitOn "," with
    | [ts, sd, sn, pto, tsbd, now, ast, sdu] => do
      let sdv ← parseNat sd
      if sdv = 0 then none else
      match templateWindowLive (← parseNat ts) sdv (← parseInt sn) (← parseInt pto) (← parseInt tsbd)
          (← parseInt now) (← parseInt ast) (← parseInt sdu) with
      | none => some "none"
      | some (a, b) => some (toString a ++ "," ++ toString b)
    | _ => none
  | _ => none

def vtol : List String → Option String
  | [cfg] =>
    match cfg.splitOn "," with
    | [au, ts, fn, fd, n] => do
      let fnum ← parseNat fn
      if fnum = 0 then none else
      let a ← pBool au
      let t ← parseNat ts
      let d ← parseNat fd
      some (showList ((List.range (← parseNat n)).map fun i => toString (templateTolerance a t fnum d i)))
    | _ => none
  | _ => none

def initErrName : InitErr → String
  | .url => "url" | .status => "status" | .noMoov => "noMoov" | .parse => "parse"
  | .loadFailed => "loadFailed" | .atomCount => "atomCount" | .ftyp => "ftyp"
  | .mandatory i => "mandatory" ++ toString i

def parseNames (s : String) : List String := if s == "-" then [] else s.splitOn ","

def vinit : List String → Option String
  | [cfg, top, moov] =>
    match cfg.splitOn "," with
    | [u, st, rg, vd] => do
      let o : InitObs := { hasUrl := ← pBool u, status := ← parseNat st, top := parseNames top,
                           moov := parseNames moov, ranged := ← pBool rg, video := ← pBool vd }
      let l := initLoad o
      some (showList (l.1.map initErrName) ++ " " ++ showBool l.2 ++ " " ++
        showList ((initValidateLoaded o).map initErrName) ++ " " ++ showList ((initErrors o).map initErrName))
    | _ => none
  | _ => none

def mErrName : MErr → String
  | .noPeriod => "noPeriod" | .profiles => "profiles" | .minBufferTime => "minBufferTime"
  | .mpdType => "mpdType" | .availabilityStartTime => "availabilityStartTime"
  | .timeShiftBufferDepth => "timeShiftBufferDepth" | .durationPresent => "durationPresent"
  | .durationInvalid => "durationInvalid" | .durationMissing => "durationMissing"
  | .mupPresent => "mupPresent" | .astPresent => "astPresent" | .patchPresent => "patchPresent"
  | .periodId => "periodId" | .adpMimeType => "adpMimeType" | .repBandwidth => "repBandwidth"
  | .repId => "repId" | .repMimeType => "repMimeType" | .initialization => "initialization"
  | .media => "media" | .repAst => "repAst" | .repTsbd => "repTsbd" | .tmplDuration => "tmplDuration"
  | .sDuration => "sDuration" | .sStart => "sStart"

def mLocName : MLoc → String
  | .mpd => "mpd"
  | .period p => "period:" ++ toString p
  | .adaptationSet p a => "adp:" ++ toString p ++ ":" ++ toString a
  | .representation p a r => "rep:" ++ toString p ++ ":" ++ toString a ++ ":" ++ toString r
  | .timeline p a => "timeline:" ++ toString p ++ ":" ++ toString a
  | .repTimeline p a r => "reptimeline:" ++ toString p ++ ":" ++ toString a ++ ":" ++ toString r

/-- doc token: `live,profiles,minBuffer,type(d|s|-),ast,tsbd,mup,mpdDur(-|0|1),nPatches` then one
token per element in document order:
`P:hasId,hasDuration`  `A:hasMimeType`  `T:media,init,duration,(-|S;S;…)` with S = `t|-,d|-,r`
(`+` for commas inside S: `t+d+r`)  `R:hasId,hasBandwidth,hasMimeType`, optionally followed by
`U:…` = the Representation's own SegmentTemplate (same fields as `T:`) -/
structure Builder where
  periods : List PeriodAttrs

def parseTemplate (s : String) : Option TemplateAttrs :=
  match s.splitOn "," with
  | [m, i, d, tl] => do
    let tlv : Option (List SElem) ← if tl == "-" then some none else
      ((tl.splitOn ";").filter (· ≠ "")).mapM (fun e => parseS (e.replace "+" ",")) |>.map some
    some { hasMedia := ← pBool m, hasInit := ← pBool i, hasDuration := ← pBool d, timeline := tlv }
  | _ => none

/-- fold the element tokens (in reverse) into nested attrs -/
def buildDoc (toks : List String) : Option (List PeriodAttrs) :=
  let step (acc : Option (List PeriodAttrs × List AdpAttrs × List RepAttrs × Option TemplateAttrs × Option TemplateAttrs))
      (tok : String) : Option (List PeriodAttrs × List AdpAttrs × List RepAttrs × Option TemplateAttrs × Option TemplateAttrs) := do
    let (ps, as, rs, t, u) ← acc
    if tok.startsWith "R:" then
      match ((tok.drop 2).toString).splitOn "," with
      | [a, b, c] => some (ps, as, { hasId := ← pBool a, hasBandwidth := ← pBool b, hasMimeType := ← pBool c,
                                     ownTemplate := u } :: rs, t, none)
      | _ => none
    else if tok.startsWith "U:" then
      some (ps, as, rs, t, some (← parseTemplate ((tok.drop 2).toString)))
    else if tok.startsWith "T:" then
      some (ps, as, rs, some (← parseTemplate ((tok.drop 2).toString)), u)
    else if tok.startsWith "A:" then
      some (ps, { hasMimeType := ← pBool ((tok.drop 2).toString), template := t, reps := rs } :: as, [], none, none)
    else if tok.startsWith "P:" then
      match ((tok.drop 2).toString).splitOn "," with
      | [a, b] => some ({ hasId := ← pBool a, hasDuration := ← pBool b, adps := as } :: ps, [], [], none, none)
      | _ => none
    else none
  (toks.reverse.foldl step (some ([], [], [], none, none))).map (·.1)

def vmpd : List String → Option String
  | hd :: toks =>
    match hd.splitOn "," with
    | [lv, pr, mb, ty, ast, tsbd, mup, dur, np] => do
      let tyv : Option Bool ← if ty == "d" then some (some true) else if ty == "s" then some (some false)
        else if ty == "-" then some none else none
      let durv : Option Bool ← if dur == "-" then some none else (pBool dur).map some
      let d : Doc := { live := ← pBool lv, hasProfiles := ← pBool pr, hasMinBufferTime := ← pBool mb,
                       typeDynamic := tyv, hasAst := ← pBool ast, hasTsbd := ← pBool tsbd,
                       hasMup := ← pBool mup, mpdDuration := durv, nPatches := ← parseNat np,
                       periods := ← buildDoc toks }
      some (showList ((docErrors d).map fun p => mLocName p.1 ++ "=" ++ mErrName p.2))
    | _ => none
  | _ => none

def refreshErrName : RefreshErr → String
  | .mpdId => "mpdId" | .availabilityStartTime => "availabilityStartTime" | .stale => "stale"

def vrefresh : List String → Option String
  | [cfg] =>
    match cfg.splitOn "," with
    | [ie, pa, a, pp, p, m] => do
      let r : Refresh := { idEqual := ← pBool ie, prevAst := ← optInt pa, ast := ← optInt a,
                           prevPublish := ← parseInt pp, publish := ← parseInt p, mup := ← optInt m }
      some (showList ((refreshErrors r).map refreshErrName))
    | _ => none
  | _ => none

def parseOp (s : String) : Option SessionOp :=
  if s == "R" then some SessionOp.refresh
  else if s.startsWith "F" then
    match ((s.drop 1).toString).splitOn "/" with
    | [a, b] => do some (SessionOp.found (← parseNatList a) (← parseNatList b))
    | _ => none
  else none

/-- `vreport <op>…` with op = `R` (archive at refresh) or `F<top ids|->/<tree ids|->` →
`<has_errors 0|1> <ids of the final report, comma separated|->` -/
def vreport (args : List String) : Option String := do
  let ops ← args.mapM parseOp
  let r := runSession ops
  some (showBool r.hasErrors ++ " " ++ showList (r.final.map toString))

def elemName : Elem → String
  | .mpd => "mpd" | .period => "period" | .adaptationSet => "adaptationSet"
  | .representation => "representation" | .segmentTemplate => "segmentTemplate" | .s => "s"

def locKindName : LocKind → String
  | .mpd => "mpd" | .period => "period" | .adaptationSet => "adp" | .representation => "rep"
  | .timeline => "timeline"

/-- `vattrs` → the table of required attributes, one row `elem,attr,live|vod,timeline(1|0|-),loc,err`,
rows separated by `;` -/
def vattrs (_ : List String) : Option String :=
  some (joinWith ";" (mandatoryAttrs.map fun r =>
    joinWith "," [elemName r.elem, r.attr, (if r.live then "live" else "vod"),
      (match r.timeline with | none => "-" | some true => "1" | some false => "0"),
      locKindName r.loc, mErrName r.err]))

/-- channels exported to `Main.lean` (collected by harness/gen_main.py) -/
def channels : List (String × (List String → Option String)) :=
  [("vseg", vseg), ("vrep", vrep), ("vtl", vtl), ("vgentl", vgentl), ("vtldepth", vtldepth), ("vwin", vwin), ("vavail", vavail),
   ("vtol", vtol),
   ("vinit", vinit), ("vmpd", vmpd), ("vrefresh", vrefresh), ("vreport", vreport), ("vattrs", vattrs)]

end DashLive.Driver.Validator
