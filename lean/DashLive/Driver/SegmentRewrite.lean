import DashLive.Model.SegmentRewrite
import DashLive.Driver.Util
/-! channel `segrewrite <pre> <moofPre> <traf> <moofPost> <mdatHdr> <payloadLen> <post>
                       <newTime> <emsg> <encrypted> <piffs> <bugSaio>`

* `<pre> <moofPre> <moofPost> <post>`: `typ:size,typ:size…` or `-`
* `<traf>`: comma separated children
  `tfhd:<basePresent 0|1>:<nOpt>` | `tfdt:<version>:<time>` |
  `trun:<dop>:<fsf>:<perSample>:<dataOffset>:<s1.s2.…|->` | `saio:<version>:<aux>:<o1.o2…|->` |
  `senc:<override>:<e1.e2.…|->` | `o:<typ>:<size>`
* `<emsg>`: `n1.n2…` or `-` (sizes of the inserted emsg boxes)

answer (one line):
`top=typ:pos:size,…;moof=pos:size;mk=…;traf=pos:size;tk=…;base=N;doff=D;saio=o1.o2|none;tfdtv=V|none;pstart=N;plen=N;total=N;patches=pos:len,…|-`
A stored segment outside `shapeOk` answers `bad-op`. -/
namespace DashLive.Driver.SegmentRewrite
open DashLive.Driver DashLive.SegmentRewrite

def parseBool (s : String) : Option Bool :=
  if s == "1" then some true else if s == "0" then some false else none

def parseDotNats (s : String) : Option (List Nat) :=
  if s == "-" then some [] else (s.splitOn ".").mapM (·.toNat?)

def parseOpq (s : String) : Option Opq :=
  match s.splitOn ":" with
  | [t, n] => do some ⟨t, ← n.toNat?⟩
  | _ => none

def parseOpqs (s : String) : Option (List Opq) :=
  if s == "-" then some [] else (s.splitOn ",").mapM parseOpq

def parseTBox (s : String) : Option TBox :=
  match s.splitOn ":" with
  | ["tfhd", bp, n] => do some (.tfhd (← parseBool bp) (← n.toNat?))
  | ["tfdt", v, t] => do some (.tfdt (← v.toNat?) (← t.toNat?))
  | ["trun", dop, fsf, per, d, sz] => do
      some (.trun (← parseBool dop) (← parseBool fsf) (← per.toNat?) (← parseDotNats sz) (← d.toInt?))
  | ["saio", v, a, o] => do some (.saio (← v.toNat?) (← parseBool a) (← parseDotNats o))
  | ["senc", o, e] => do some (.senc (← parseBool o) (← parseDotNats e))
  | ["o", t, n] => do some (.other t (← n.toNat?))
  | _ => none

def parseTraf (s : String) : Option (List TBox) :=
  if s == "-" then some [] else (s.splitOn ",").mapM parseTBox

def showPlaced (l : List Placed) : String :=
  if l.isEmpty then "-" else
  joinWith "," (l.map fun p => s!"{p.typ}:{p.pos}:{p.size}")

def showNats (l : List Nat) : String :=
  if l.isEmpty then "-" else joinWith "." (l.map toString)

def firstTfdtVersion : List TBox → Option Nat
  | [] => none
  | .tfdt v _ :: _ => some v
  | _ :: r => firstTfdtVersion r

def showOut (o : Out) : String :=
  let saio := match saioOffsets o.traf with | some l => showNats l | none => "none"
  let tv := match firstTfdtVersion o.traf with | some v => toString v | none => "none"
  let patches := if o.patches.isEmpty then "-" else
    joinWith "," (o.patches.map fun p => s!"{p.1}:{p.2}")
  joinWith ";" [
    "top=" ++ showPlaced o.top,
    s!"moof={o.moofPos}:{o.moofSize}",
    "mk=" ++ showPlaced o.moofKids,
    s!"traf={o.trafPos}:{o.trafSize}",
    "tk=" ++ showPlaced o.trafKids,
    s!"base={o.base}",
    s!"doff={trunOffset o.traf}",
    "saio=" ++ saio,
    "tfdtv=" ++ tv,
    s!"pstart={o.payloadStart}",
    s!"plen={o.payload.length}",
    s!"total={o.total}",
    "patches=" ++ patches]

def segrewrite : List String → Option String
  | [pre, moofPre, traf, moofPost, mdatHdr, plen, post, newTime, emsg, enc, piffs, bug] => do
    let s : Seg := {
      pre := ← parseOpqs pre, moofPre := ← parseOpqs moofPre, traf := ← parseTraf traf,
      moofPost := ← parseOpqs moofPost, mdatHdr := ← mdatHdr.toNat?,
      payload := List.replicate (← plen.toNat?) 0, post := ← parseOpqs post }
    let o : Opts := {
      newTime := ← newTime.toNat?, newEmsg := ← parseDotNats emsg, encrypted := ← parseBool enc,
      piffs := ← piffs.toNat?, bugSaio := ← parseBool bug }
    if shapeOk s then some (showOut (rewrite o s)) else none
  | _ => none

/-- channels exported to `Main.lean` (collected by harness/gen_main.py) -/
def channels : List (String × (List String → Option String)) := [("segrewrite", segrewrite)]

end DashLive.Driver.SegmentRewrite
