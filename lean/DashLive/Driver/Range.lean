import DashLive.Model.Range
import DashLive.Driver.Util
/-! channels of the HTTP Range model (C13)

* `range <lim> <len> <hdr>` – `get_http_range(len)`;
  `<hdr>` is `none` (no header) or `h:<hex>` (Latin-1 code points, `h:-` = empty string);
  answer `absent` | `ValueError` | `<start>|<end>|<status>|<Content-Range>`
* `rangeresp <seg|od> <lim> <len> <hdr>` – the whole response of the segment /
  on-demand consumer on a resource of `len` elements.  The model is run on the
  index list `0..len-1`; answer `<status>|<Content-Range or none>|<off>|<n>`: the
  body consists of the `n` consecutive elements starting at index `off`
  (`noncontiguous` otherwise; `-|0` for an empty body).
-/
namespace DashLive.Driver.Range
open DashLive.Driver DashLive.Range

def parseHdr (s : String) : Option (Option (List Char)) :=
  if s == "none" then some none
  else if s.startsWith "h:" then
    (parseHex (s.drop 2).toString).map fun bs => some (bs.map fun b => Char.ofNat b.toNat)
  else none

def range : List String → Option String
  | [lim, len, hdr] => do
    let lim ← parseNat lim
    let len ← parseNat len
    let h ← parseHdr hdr
    match getHttpRange lim h len with
    | .error _ => some "ValueError"
    | .ok none => some "absent"
    | .ok (some r) =>
      some s!"{r.start}|{r.stop}|{r.status}|{String.ofList r.contentRange}"
  | _ => none

/-- `some (off, n)` if `body = [off, off+1, …, off+n-1]` -/
def contiguous : List Nat → Option (Nat × Nat)
  | [] => some (0, 0)
  | x :: xs => if (x :: xs) == List.range' x (xs.length + 1) then some (x, xs.length + 1) else none

def showResp (r : Response Nat) : String :=
  let cr := match r.contentRange with
    | none => "none"
    | some c => String.ofList c
  let body := match contiguous r.body with
    | none => "noncontiguous"
    | some (_, 0) => "-|0"
    | some (off, n) => s!"{off}|{n}"
  s!"{r.status}|{cr}|{body}"

def rangeresp : List String → Option String
  | [kind, lim, len, hdr] => do
    let lim ← parseNat lim
    let len ← parseNat len
    let h ← parseHdr hdr
    let data := List.range len
    if kind == "seg" then some (showResp (segmentResponse lim h data))
    else if kind == "od" then some (showResp (onDemandResponse lim h data))
    else none
  | _ => none

/-- channels exported to `Main.lean` (collected by harness/gen_main.py) -/
def channels : List (String × (List String → Option String)) :=
  [("range", range), ("rangeresp", rangeresp)]

end DashLive.Driver.Range
