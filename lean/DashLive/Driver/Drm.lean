import DashLive.Model.Sha256
import DashLive.Model.Aes128
import DashLive.Model.PlayReady
import DashLive.Model.ClearKey
import DashLive.Model.InitRewrite
import DashLive.Model.WrmHeader
import DashLive.Gen.WrmHeader
import DashLive.Driver.Util
/-! Line-protocol channels of the DRM models (C11, C10).

Conventions: bytes are hex (`-` = empty), lists are comma separated (`-` = empty),
text is a `.`-separated list of code points (`-` = empty), Python exceptions are
the token `err`.

* `sha256 <hex>` / `aes128 <key> <block>` – the instances of the hash / cipher parameters
* `leguid <hex>`, `contentkey <seed> <kid>`, `checksum <key> <kid>`
* `genpro <wrm>`, `parsepro <pro>` (`type:len:payload;…`), `wrmbytes <text>`, `utf16dec <hex>`
* `pssh <version> <sys> <kids> <data>`, `decodepssh <hex>`, `prpssh <kids> <pro>`, `ckpssh <kids>`
* `b64enc <hex>`, `b64dec <text>` (`ok:<hex>` | `error` | `outside`)
* `licence <kid:key,…> <ids|none> <0|1>` – ids `s:<text>` or `o`
* `drmsel <string>`, `drmprint <string>`, `hdrver <0|1 aesctr> <nkeys>`, `drmctx <version|-> <0|1 aesctr> <nkeys> <string>`,
  `initpsshs <0|1 encrypted> <version|-> <0|1 aesctr> <string> <kids> <pro>`
* `wrmheader <hv> <sl> <kid:key:alg:computed,…> <default kid> <la|none> <custom|->`, `parsewrm <text>`,
  `hdrchoice <version|-> <header version|-> <0|1 aesctr> <nkeys>`
* `initrewrite <tree> <0|1 encrypted> <version|-> <0|1 aesctr> <string> <kids> <pro> <0|1 live>`,
  `parseboxes <container types> <hex>` –
  tree = preorder tokens `L<type>:<payload>` / `N<type>:<nchildren>` joined by `,`
-/
namespace DashLive.Driver.Drm
open DashLive.Driver DashLive

def parseHexList (s : String) : Option (List (List UInt8)) :=
  if s == "-" then some [] else (s.splitOn ",").mapM parseHex

def showHexList (l : List (List UInt8)) : String :=
  if l.isEmpty then "-" else joinWith "," (l.map toHex)

def parseText (s : String) : Option (List Nat) :=
  if s == "-" then some [] else (s.splitOn ".").mapM (·.toNat?)

def showText (t : List Nat) : String :=
  if t.isEmpty then "-" else joinWith "." (t.map toString)

def optHex : Option (List UInt8) → String
  | some b => toHex b
  | none => "err"

def parseBool : String → Option Bool
  | "0" => some false
  | "1" => some true
  | _ => none

def parseOptNat (s : String) : Option (Option Nat) :=
  if s == "-" then some none else s.toNat?.map some

/-! #### crypto instances -/

def sha256 : List String → Option String
  | [m] => do some (toHex (Sha256.sha256 (← parseHex m)))
  | _ => none

def aes128 : List String → Option String
  | [k, b] => do some (optHex (Aes128.encryptBlock (← parseHex k) (← parseHex b)))
  | _ => none

/-! #### PlayReady helpers -/

def leguid : List String → Option String
  | [g] => do some (optHex (PlayReady.hexToLeGuid (← parseHex g)))
  | _ => none

def contentkey : List String → Option String
  | [seed, kid] => do
    some (optHex (PlayReady.contentKey Sha256.sha256 (← parseHex seed) (← parseHex kid)))
  | _ => none

def checksum : List String → Option String
  | [key, kid] => do
    let key ← parseHex key
    -- `AES.new` rejects keys that are not 16 bytes before anything else (ValueError)
    if key.length ≠ 16 then some "err" else
    some (optHex (PlayReady.checksum Aes128.enc key (← parseHex kid)))
  | _ => none

def genpro : List String → Option String
  | [w] => do some (optHex (PlayReady.generatePro (← parseHex w)))
  | _ => none

def showRecord (r : PlayReady.Record) : String :=
  s!"{r.recordType}:{r.length}:" ++ (match r.payload with | some p => toHex p | none => "none")

def parsepro : List String → Option String
  | [p] => do
    match PlayReady.parsePro (← parseHex p) with
    | some rs => some (if rs.isEmpty then "-" else joinWith ";" (rs.map showRecord))
    | none => some "err"
  | _ => none

def wrmbytes : List String → Option String
  | [t] => do some (toHex (PlayReady.wrmBytes (← parseText t)))
  | _ => none

def utf16dec : List String → Option String
  | [h] => do
    match PlayReady.decodeUtf16le (← parseHex h) with
    | some t => some (showText t)
    | none => some "err"
  | _ => none

def pssh : List String → Option String
  | [v, sys, kids, data] => do
    some (toHex (PlayReady.encodePssh (← parseNat v) (← parseHex sys) (← parseHexList kids)
      (← parseHex data)))
  | _ => none

def decodepssh : List String → Option String
  | [h] => do
    match PlayReady.decodePssh (← parseHex h) with
    | some p => some s!"{p.version} {toHex p.sys} {showHexList p.kids} {toHex p.data}"
    | none => some "err"
  | _ => none

def prpssh : List String → Option String
  | [kids, pro] => do some (toHex (PlayReady.playreadyPssh (← parseHexList kids) (← parseHex pro)))
  | _ => none

def ckpssh : List String → Option String
  | [kids] => do some (toHex (ClearKey.clearkeyPssh (← parseHexList kids)))
  | _ => none

/-! #### ClearKey handler -/

def b64enc : List String → Option String
  | [h] => do some (showText (ClearKey.b64urlEncode (← parseHex h)))
  | _ => none

def showDec : ClearKey.Dec → String
  | .ok b => "ok:" ++ toHex b
  | .error => "error"
  | .outside => "outside"

def b64dec : List String → Option String
  | [t] => do some (showDec (ClearKey.b64urlDecode (← parseText t)))
  | _ => none

def parseStored (s : String) : Option ClearKey.Stored :=
  match s.splitOn ":" with
  | [k, v] => do some ⟨← parseHex k, ← parseHex v⟩
  | _ => none

def parseStore (s : String) : Option (List ClearKey.Stored) :=
  if s == "-" then some [] else (s.splitOn ",").mapM parseStored

def parseJId (s : String) : Option ClearKey.JId :=
  if s == "o" then some .other
  else match s.splitOn ":" with
    | ["s", t] => (parseText t).map .str
    | _ => none

def parseIds (s : String) : Option (Option (List ClearKey.JId)) :=
  if s == "none" then some none
  else if s == "-" then some (some [])
  else ((s.splitOn ",").mapM parseJId).map some

def showResp : ClearKey.Resp → String
  | .missingKids => "missing"
  | .error => "error"
  | .outside => "outside"
  | .keys items =>
    "keys " ++ (if items.isEmpty then "-" else
      joinWith "," (items.map fun (k, v) => showText k ++ ":" ++ showText v))

def licence : List String → Option String
  | [store, ids, t] => do
    some (showResp (ClearKey.licence (← parseStore store) (← parseIds ids) (← parseBool t)))
  | _ => none

/-! #### DRM selection and init rewrite -/

open InitRewrite in
def showSys : Sys → String
  | .clearkey => "clearkey"
  | .marlin => "marlin"
  | .playready => "playready"

def showLoc : PlayReady.Loc → String
  | .cenc => "cenc"
  | .moov => "moov"
  | .pro => "pro"

def b01 (b : Bool) : String := if b then "1" else "0"

/-- the selection string is passed percent-free as hex of its UTF-8 bytes -/
def parseSelArg (s : String) : Option InitRewrite.Selection := do
  let bytes ← parseHex s
  let str ← String.fromUTF8? (ByteArray.mk bytes.toArray)
  InitRewrite.parseSelection str

def drmsel : List String → Option String
  | [s] =>
    match parseHex s with
    | none => none
    | some _ =>
      match parseSelArg s with
      | none => some "err"
      | some sel =>
        some (if sel.isEmpty then "-" else
          joinWith ";" (sel.map fun (sys, locs) =>
            showSys sys ++ ":" ++ (if locs.isEmpty then "-" else joinWith "," (locs.map showLoc))))
  | _ => none

/-- `drmprint <selection>`: what `_drm_selection_to_string` writes for the parsed selection -/
def drmprint : List String → Option String
  | [s] =>
    match parseHex s with
    | none => none
    | some _ =>
      match parseSelArg s with
      | none => some "err"
      | some sel =>
        match InitRewrite.printSelection sel with
        | .all => some "all"
        | .items l =>
          some (if l.isEmpty then "-" else
            joinWith "," (l.map fun (sys, locs) =>
              match locs with
              | none => showSys sys
              | some ls => joinWith "-" (showSys sys :: ls.map showLoc)))
  | _ => none

def hdrver : List String → Option String
  | [aes, n] => do
    let h := PlayReady.minimumHeaderVersion (← parseBool aes) (← parseNat n)
    some s!"{h} {PlayReady.minimumPlayreadyVersion h}"
  | _ => none

def drmctx : List String → Option String
  | [v, aes, n, s] => do
    let v ← parseOptNat v
    let aes ← parseBool aes
    let n ← parseNat n
    let _ ← parseHex s
    match parseSelArg s with
    | none => some "err"
    | some sel =>
      let cs := InitRewrite.contexts v aes n sel
      some (if cs.isEmpty then "-" else
        joinWith ";" (cs.map fun (sys, h) =>
          s!"{showSys sys}:cenc={b01 h.cenc},moov={b01 h.moov},pro={b01 h.pro},v10={b01 h.v10}"))
  | _ => none

def initpsshs : List String → Option String
  | [enc, v, aes, s, kids, pro] => do
    let enc ← parseBool enc
    let v ← parseOptNat v
    let aes ← parseBool aes
    let kids ← parseHexList kids
    let pro ← parseHex pro
    let _ ← parseHex s
    match parseSelArg s with
    | none => some "err"
    | some sel =>
      some (showHexList ((InitRewrite.initPsshs enc v aes sel kids pro).map (·.bytes)))
  | _ => none

open InitRewrite in
/-- preorder token reader; returns the box and the unread tokens -/
partial def readBox : List String → Option (Box × List String)
  | [] => none
  | tok :: rest =>
    match tok.splitOn ":" with
    | [hd, arg] =>
      let kind := String.ofList (hd.toList.take 1)
      match parseHex (String.ofList (hd.toList.drop 1)) with
      | none => none
      | some t =>
        if kind == "L" then (parseHex arg).map fun p => (Box.leaf t p, rest)
        else if kind == "N" then
          match arg.toNat? with
          | none => none
          | some n =>
            let rec kids : Nat → List String → List Box → Option (List Box × List String)
              | 0, toks, acc => some (acc.reverse, toks)
              | k + 1, toks, acc =>
                match readBox toks with
                | none => none
                | some (b, toks') => kids k toks' (b :: acc)
            (kids n rest []).map fun (cs, toks) => (Box.node t cs, toks)
        else none
    | _ => none

open InitRewrite in
partial def readBoxes (toks : List String) (acc : List Box) : Option (List Box) :=
  if toks.isEmpty then some acc.reverse else
  match readBox toks with
  | none => none
  | some (b, rest) => readBoxes rest (b :: acc)

open InitRewrite in
partial def showBox : Box → List String
  | .leaf t p => ["L" ++ toHex t ++ ":" ++ toHex p]
  | .node t cs => ("N" ++ toHex t ++ ":" ++ toString cs.length) :: cs.flatMap showBox

def parseTree (s : String) : Option (List InitRewrite.Box) :=
  if s == "-" then some [] else readBoxes (s.splitOn ",") []

/-- `initrewrite <tree> <0|1 encrypted> <version|-> <0|1 aesctr> <selection> <kids> <pro> <0|1 live>` -/
def initrewrite : List String → Option String
  | [tree, enc, v, aes, s, kids, pro, live] => do
    let top ← parseTree tree
    let enc ← parseBool enc
    let v ← parseOptNat v
    let aes ← parseBool aes
    let kids ← parseHexList kids
    let pro ← parseHex pro
    let live ← parseBool live
    let _ ← parseHex s
    match parseSelArg s with
    | none => some "err"
    | some sel =>
      some (toHex (InitRewrite.initBytes top (InitRewrite.initPsshs enc v aes sel kids pro) live))
  | _ => none

def parseboxes : List String → Option String
  | [containers, h] => do
    let cs ← parseHexList containers
    let bs ← parseHex h
    match InitRewrite.parseBoxes (fun t => cs.contains t) (bs.length + 1) bs with
    | none => some "err"
    | some boxes => some (if boxes.isEmpty then "-" else joinWith "," (boxes.flatMap showBox))
  | _ => none

/-! #### WRMHEADER text (templates translated into Gen/WrmHeader.lean) -/

def optText : Option (List Nat) → String
  | some t => showText t
  | none => "none"

def parseOptText (s : String) : Option (Option (List Nat)) :=
  if s == "none" then some none else (parseText s).map some

def parseKeyInfo (s : String) : Option WrmHeader.KeyInfo :=
  match s.splitOn ":" with
  | [kid, key, alg, comp] => do
    some ⟨← parseHex kid, ← parseHex key, ← parseText alg, ← parseBool comp⟩
  | _ => none

def parseAttr (s : String) : Option (List Nat × List Nat) :=
  match s.splitOn "~" with
  | [k, v] => do some (← parseText k, ← parseText v)
  | _ => none

def parseCustom (s : String) : Option WrmHeader.Custom :=
  match s.splitOn ":" with
  | [tag, value, as] => do
    let attrs ← if as == "-" then some [] else (as.splitOn ";").mapM parseAttr
    some ⟨← parseText tag, attrs, ← parseText value⟩
  | _ => none

/-- `wrmheader <hv> <sl> <kid:key:alg:computed,…> <default kid> <la text|none> <custom|->` →
hex of the bytes `generate_wrmheader` returns -/
def wrmheader : List String → Option String
  | [hv, sl, keys, dk, la, custom] => do
    let hv ← parseNat hv
    let sl ← parseNat sl
    let keys ← if keys == "-" then some [] else (keys.splitOn ",").mapM parseKeyInfo
    let dk ← parseHex dk
    let la ← parseOptText la
    let custom ← if custom == "-" then some [] else (custom.splitOn ",").mapM parseCustom
    match Gen.WrmHeader.template hv, WrmHeader.buildCtx Aes128.enc sl keys dk la custom with
    | some tmpl, some ctx => some (toHex (PlayReady.wrmBytes (WrmHeader.wrmText tmpl ctx)))
    | _, _ => some "err"
  | _ => none

def showKidInfo (k : WrmHeader.KidInfo) : String :=
  toHex k.value ++ ":" ++ (match k.checksum with | some c => toHex c | none => "none") ++ ":" ++ optText k.algid

/-- `parsewrm <text>` → `version/kids/laUrl` -/
def parsewrm : List String → Option String
  | [t] => do
    match WrmHeader.parseWrmHeader (← parseText t) with
    | none => some "err"
    | some i =>
      some (optText i.version ++ "/" ++ (if i.kids.isEmpty then "-" else joinWith "," (i.kids.map showKidInfo))
        ++ "/" ++ optText i.laUrl)
  | _ => none

/-- `hdrchoice <version|-> <header version|-> <0|1 aesctr> <nkeys>` -/
def hdrchoice : List String → Option String
  | [v, hv, aes, n] => do
    match WrmHeader.chooseHeaderVersion (← parseOptNat v) (← parseOptNat hv) (← parseBool aes) (← parseNat n) with
    | some h => some (toString h)
    | none => some "err"
  | _ => none

/-- channels exported to `Main.lean` (collected by harness/gen_main.py) -/
def channels : List (String × (List String → Option String)) := [
  ("sha256", sha256), ("aes128", aes128), ("leguid", leguid), ("contentkey", contentkey),
  ("checksum", checksum), ("genpro", genpro), ("parsepro", parsepro), ("wrmbytes", wrmbytes),
  ("utf16dec", utf16dec), ("pssh", pssh), ("decodepssh", decodepssh), ("prpssh", prpssh),
  ("ckpssh", ckpssh), ("b64enc", b64enc), ("b64dec", b64dec), ("licence", licence),
  ("drmsel", drmsel), ("drmprint", drmprint), ("hdrver", hdrver), ("drmctx", drmctx), ("initpsshs", initpsshs),
  ("initrewrite", initrewrite), ("parseboxes", parseboxes),
  ("wrmheader", wrmheader), ("parsewrm", parsewrm), ("hdrchoice", hdrchoice)]

end DashLive.Driver.Drm
