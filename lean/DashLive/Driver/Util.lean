/-! Shared helpers of the line-protocol driver (import-free). -/
namespace DashLive.Driver

def hexDigit (c : Char) : Option Nat :=
  if '0' ≤ c ∧ c ≤ '9' then some (c.toNat - '0'.toNat)
  else if 'a' ≤ c ∧ c ≤ 'f' then some (c.toNat - 'a'.toNat + 10)
  else if 'A' ≤ c ∧ c ≤ 'F' then some (c.toNat - 'A'.toNat + 10)
  else none

/-- hex string → bytes; `-` is the empty string -/
def parseHex (s : String) : Option (List UInt8) :=
  if s == "-" then some [] else
  let rec go : List Char → List UInt8 → Option (List UInt8)
    | [], acc => some acc.reverse
    | [_], _ => none
    | a :: b :: rest, acc => do
      let x ← hexDigit a
      let y ← hexDigit b
      go rest (UInt8.ofNat (x * 16 + y) :: acc)
  go s.toList []

def hexChar (n : Nat) : Char :=
  if n < 10 then Char.ofNat (n + '0'.toNat) else Char.ofNat (n - 10 + 'a'.toNat)

def toHex (b : List UInt8) : String :=
  if b.isEmpty then "-" else
  String.ofList (b.flatMap fun x => [hexChar (x.toNat / 16), hexChar (x.toNat % 16)])

def parseInt (s : String) : Option Int := s.toInt?
def parseNat (s : String) : Option Nat := s.toNat?

/-- comma separated naturals; `-` is the empty list -/
def parseNatList (s : String) : Option (List Nat) :=
  if s == "-" then some [] else (s.splitOn ",").mapM (·.toNat?)

def parseIntList (s : String) : Option (List Int) :=
  if s == "-" then some [] else (s.splitOn ",").mapM (·.toInt?)

def joinWith (sep : String) (l : List String) : String := sep.intercalate l

end DashLive.Driver
