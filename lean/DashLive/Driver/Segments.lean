import DashLive.Model.Segments
import DashLive.Driver.Util
/-! Line-protocol channels of `Model/Segments.lean`.

* `segidx <durs> <R> <tc>` → `<mod_segment> <seg_start> <origin>`
* `timeline live <durs> <R> <ts> <tcF> <tsbd>` → `t:d:count;…` (`-` for an absent `t`; `-` for an empty list)
* `timeline vod <durs>` → same
* `expand live|vod …` → `t:d;t:d;…` (DASH expansion of the same list)
* `firstlast <ts> <sd> <sn> <E_us> <tsbd>` → `<first> <last>`
* `liveindex <durs> <ts> <sd> <sn> <R> <E_us> <tsbd> <leeway_us> t|n <value> <conv_us>` →
  `ok <mod> <origin> <num>` | `404`   (`conv_us` = the implementation's
  `timescale_to_timedelta(timecode)` in µs: the float step is a parameter of the model)
* `vodindex <n> <sd> <sn> t|n <value>` → `ok <mod> <origin> <num>` | `404`
-/
namespace DashLive.Driver.Segments
open DashLive.Driver DashLive.Segments

def showNodes (l : List SNode) : String :=
  if l.isEmpty then "-" else
  joinWith ";" (l.map fun s =>
    (match s.start with | some t => toString t | none => "-") ++ ":" ++
    (match s.dur with | some d => toString d | none => "-") ++ ":" ++ toString s.count)

def showPairs (l : List (Int × Int)) : String :=
  if l.isEmpty then "-" else joinWith ";" (l.map fun p => toString p.1 ++ ":" ++ toString p.2)

def segidx : List String → Option String
  | [durs, r, tc] => do
    let d ← parseNatList durs
    let R ← parseNat r
    let t ← parseNat tc
    if R = 0 ∨ d.isEmpty then none else
    let x := getSegmentIndex d R t
    some s!"{x.1} {x.2.1} {x.2.2}"
  | _ => none

def tlArgs : List String → Option (List SNode)
  | ["live", durs, r, ts, tcF, tsbd] => do
    let d ← parseNatList durs
    let R ← parseNat r
    let ts ← parseNat ts
    let f ← parseNat tcF
    let b ← parseNat tsbd
    if R = 0 ∨ d.isEmpty then none else
    some (timelineLive d R ts f b (b * ts + 1))
  | ["vod", durs] => do
    let d ← parseNatList durs
    if d.isEmpty then none else
    some (timelineVod d (d.sum + 1))
  | _ => none

def timeline (args : List String) : Option String := (tlArgs args).map showNodes
def expandCh (args : List String) : Option String := (tlArgs args).map (showPairs ∘ expand)

def firstlast : List String → Option String
  | [ts, sd, sn, e, b] => do
    let ts ← parseNat ts
    let sd ← parseNat sd
    let sn ← parseNat sn
    let e ← parseNat e
    let b ← parseNat b
    if sd = 0 then none else
    let r := firstLastLive ts sd sn { E := e, tsbd := b, leeway := 0 }
    some s!"{r.1} {r.2}"
  | _ => none

def showRes : Res → String
  | .ok m o k => s!"ok {m} {o} {k}"
  | .notFound => "404"

def parseReq (k v : String) : Option Req :=
  match k with
  | "t" => (parseNat v).map Req.time
  | "n" => (parseInt v).map Req.number
  | _ => none

def liveindex : List String → Option String
  | [durs, ts, sd, sn, r, e, b, lw, k, v, cv] => do
    let d ← parseNatList durs
    let ts ← parseNat ts
    let sd ← parseNat sd
    let sn ← parseNat sn
    let R ← parseNat r
    let e ← parseNat e
    let b ← parseNat b
    let lw ← parseNat lw
    let rq ← parseReq k v
    let c ← parseInt cv
    if R = 0 ∨ sd = 0 then none else
    some (showRes (liveIndex (fun _ => c) d ts sd sn R { E := e, tsbd := b, leeway := lw } rq))
  | _ => none

def vodindex : List String → Option String
  | [n, sd, sn, k, v] => do
    let n ← parseNat n
    let sd ← parseNat sd
    let sn ← parseNat sn
    let rq ← parseReq k v
    if sd = 0 then none else
    some (showRes (vodIndex n sd sn rq))
  | _ => none

def channels : List (String × (List String → Option String)) :=
  [("segidx", segidx), ("timeline", timeline), ("expand", expandCh), ("firstlast", firstlast),
   ("liveindex", liveindex), ("vodindex", vodindex)]

end DashLive.Driver.Segments
