import DashLive.Model.LiveTiming
import DashLive.Driver.Util
/-!
Channels of the live-timing model (C08).

* `calendar <day>` → `<year> <month> <day-of-month> <yearStartDay> <monthStartDay>`
  (`day` = days since 1970-01-01)
* `mupdefault <segment_duration> <timescale>` → default minimumUpdatePeriod (s)
* `livetiming <now µs> <start> <depth|-> <mup|-> <leeway|-> <segment_duration> <timescale>`
  with `<start>` = `epoch|today|month|year|now|at:<utc µs>:<offset min>` →
  `<AST µs> <utc offset min> <elapsed µs> <tsbd s> <firstAvailable µs> <publish µs> <mup s|-> <leeway µs>`
-/
namespace DashLive.Driver.LiveTiming
open DashLive.Driver DashLive.LiveTiming DashLive.Calendar

def parseOptInt (s : String) : Option (Option Int) :=
  if s == "-" then some none else (parseInt s).map some

def parseStart (s : String) : Option Start :=
  match s.splitOn ":" with
  | ["epoch"] => some .epoch
  | ["today"] => some .today
  | ["month"] => some .month
  | ["year"] => some .year
  | ["now"] => some .now
  | ["at", t, off] => do
    let t ← parseInt t
    let off ← parseInt off
    some (.explicit t off)
  | _ => none

def calendar : List String → Option String
  | [d] => do
    let d ← parseNat d
    let (y, m, dd) := civil d
    some s!"{y} {m} {dd} {yearStartDay d} {monthStartDay d}"
  | _ => none

def mupdefault : List String → Option String
  | [sd, ts] => do
    let sd ← parseNat sd
    let ts ← parseNat ts
    if ts = 0 then none else
    some (toString (defaultMup true ⟨sd, ts⟩))
  | _ => none

def livetiming : List String → Option String
  | [now, start, depth, mup, leeway, sd, ts] => do
    let now ← parseInt now
    let start ← parseStart start
    let depth ← parseOptInt depth
    let mup ← parseOptInt mup
    let leeway ← parseOptInt leeway
    let sd ← parseNat sd
    let ts ← parseNat ts
    if ts = 0 ∨ now < 0 then none else
    let t := calculateLiveParams now ⟨sd, ts⟩ { start := start, depth := depth, mup := mup, leeway := leeway }
    let m := match t.minimumUpdatePeriod with
      | none => "-"
      | some p => toString p
    some s!"{t.availabilityStartTime} {t.utcOffsetMin} {t.elapsedTime} {t.timeShiftBufferDepth} {t.firstAvailableTime} {t.publishTime} {m} {t.leeway}"
  | _ => none

def showTiming (t : LiveTiming) : String :=
  let m := match t.minimumUpdatePeriod with
    | none => "-"
    | some p => toString p
  s!"{t.availabilityStartTime} {t.utcOffsetMin} {t.elapsedTime} {t.timeShiftBufferDepth} {t.firstAvailableTime} {t.publishTime} {m} {t.leeway}"

def showOpt : Option Int → String
  | none => "-"
  | some v => toString v

/-- `servelive <now µs> <start> <depth|-> <mup|-> <leeway|-> <sd> <ts>` → `refused` (the stream has not
started: 404) or the timing line of `livetiming` -/
def servelive : List String → Option String
  | [now, start, depth, mup, leeway, sd, ts] => do
    let now ← parseInt now
    let start ← parseStart start
    let depth ← parseOptInt depth
    let mup ← parseOptInt mup
    let leeway ← parseOptInt leeway
    let sd ← parseNat sd
    let ts ← parseNat ts
    if ts = 0 ∨ now < 0 then none else
    match serveLive now ⟨sd, ts⟩ { start := start, depth := depth, mup := mup, leeway := leeway } with
    | none => some "refused"
    | some t => some (showTiming t)
  | _ => none

/-- `handon <now1> <now2> <start> <depth|-> <mup|-> <leeway|-> <sd> <ts>` →
`<handed-on start µs> <offset min> <depth> <mup|-> | <timing of the followed document at now2>` -/
def handon : List String → Option String
  | [now1, now2, start, depth, mup, leeway, sd, ts] => do
    let now1 ← parseInt now1
    let now2 ← parseInt now2
    let start ← parseStart start
    let depth ← parseOptInt depth
    let mup ← parseOptInt mup
    let leeway ← parseOptInt leeway
    let sd ← parseNat sd
    let ts ← parseNat ts
    if ts = 0 ∨ now1 < 0 ∨ now2 < now1 then none else
    let o : Options := { start := start, depth := depth, mup := mup, leeway := leeway }
    let t1 := calculateLiveParams now1 ⟨sd, ts⟩ o
    let o2 := handOn t1 o
    some s!"{t1.availabilityStartTime} {t1.utcOffsetMin} {showOpt o2.depth} {showOpt o2.mup} | {showTiming (followed now1 now2 ⟨sd, ts⟩ o)}"
  | _ => none

/-- channels exported to `Main.lean` (collected by harness/gen_main.py) -/
def channels : List (String × (List String → Option String)) :=
  [("calendar", calendar), ("mupdefault", mupdefault), ("livetiming", livetiming), ("handon", handon), ("servelive", servelive)]

end DashLive.Driver.LiveTiming
