import DashLive.Driver.Util
import DashLive.Driver.BufReader
/-! Line-protocol driver: `<channel> <args…>` → one canonical response line.
Unknown or malformed lines answer `bad-op` (never a default value). -/
open DashLive.Driver

def dispatch (line : String) : String :=
  match (line.trimAscii.toString.splitOn " ").filter (· ≠ "") with
  | [] => "bad-op"
  | ch :: args =>
    let r : Option String := match ch with
      | "bufreader" => bufreader args
      | _ => none
    r.getD "bad-op"

partial def loop (h : IO.FS.Stream) (out : IO.FS.Stream) : IO Unit := do
  let line ← h.getLine
  if line.isEmpty then return ()
  out.putStrLn (dispatch line)
  loop h out

def main : IO Unit := do
  let out ← IO.getStdout
  loop (← IO.getStdin) out
  out.flush
