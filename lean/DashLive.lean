-- Root of the `DashLive` library (written by harness/setup.py: every module present).
import DashLive.Model.BufReader
import DashLive.Lemmas.BufReader
import DashLive.Props.C20
